"""C16 - configuration sources are merged in the documented order of authority.

Decides by: for every setting, every non-empty subset of the sources that can mention it (command
line, GUNICORN_CMD_ARGS, configuration file, framework defaults), every assignment of two distinct
valid values to the mentioning sources; per setting and source one or more invalid values; the
three ways of selecting the configuration file; and reload histories (load under sources S1, change
the sources to S2, reload: must equal a fresh load under S2).  Each load is the real
WSGIApplication configuration path in a child process whose cwd, argv and environment are owned by
the harness.  Oracle: fold by authority over values normalised by the setting's own validator."""
import itertools
import os
import random
import shlex
import shutil
import sys
import tempfile

from vlib import par
from vlib.runner import Result, violation

ORDER = ["cli", "env", "file", "fw"]          # most authoritative first

_STATE = {}


def _setup():
    """Per-process scratch directory; gunicorn is imported only after chdir into it, because the
    default of the chdir setting (and with it the place where ./gunicorn.conf.py is looked up) is
    captured at import time."""
    if "dir" in _STATE and _STATE.get("pid") == os.getpid():
        return _STATE
    d = tempfile.mkdtemp(prefix="verif-c16-", dir="/dev/shm" if os.path.isdir("/dev/shm") else None)
    os.chdir(d)
    for k in ("GUNICORN_CMD_ARGS",):
        os.environ.pop(k, None)
    for n in ("fileA", "fileB", "extra1", "extra2"):
        open(os.path.join(d, n + ".txt"), "w").write("x")
    for n in ("dirA", "dirB"):
        os.makedirs(os.path.join(d, n), exist_ok=True)
    for n in ("pasteA", "pasteB"):
        open(os.path.join(d, n + ".ini"), "w").write("[app:main]\nuse = egg:none\n")
    open(os.path.join(d, "app.py"), "w").write("def app(environ, start_response):\n    pass\n")
    import gunicorn.config  # noqa: F401  (after chdir, on purpose)
    _STATE.clear()
    _STATE.update({"dir": d, "pid": os.getpid()})
    import atexit
    atexit.register(shutil.rmtree, d, True)
    return _STATE


# hooks used as framework-default values (module level so that names are stable)
def _mk_hook(name, arity):
    args = ", ".join("a%d" % i for i in range(arity))
    ns = {}
    exec("def %s(%s):\n    pass\n" % (name, args), ns)
    return ns[name]


def value_table(s, d):
    """For setting object s: (values, invalid) where values = two distinct valid python values (not
    the default), invalid = list of invalid python values.  Returns None to skip (documented why)."""
    v = getattr(s.validator, "__name__", "")
    n = s.name
    if n == "config":
        return None                                   # has its own test (selects the file source)
    if v == "validate_pos_int":
        a, b = 0, 7
        if s.default == 0:
            a = 3
        return [a, b], [-1, "abc"]
    if v == "validate_bool":
        return [True, False], ["maybe"]
    if n == "paste":
        return [os.path.join(d, "pasteA.ini"), os.path.join(d, "pasteB.ini")], [7]
    if v == "validate_string":
        # a value with a blank and a quote: in GUNICORN_CMD_ARGS it has to be shell-quoted
        return ["val A'-" + n, "valB-" + n], [7]
    if v == "validate_list_string":
        if n == "bind":
            return [["127.0.0.1:8001"], ["127.0.0.1:8002", "unix:/tmp/x.sock"]], [7]
        return [["A=1"], ["B=2", "C=3"]], [7]
    if v == "validate_class":
        if n == "worker_class":
            return ["gthread", "gunicorn.workers.sync.SyncWorker"], [7]
        return ["gunicorn.instrument.statsd.Statsd", "gunicorn.glogging.Logger2"], [7]
    if v == "validate_reload_engine":
        return ["poll", "inotify"], ["nosuch"]
    if v == "validate_list_of_existing_files":
        return [[os.path.join(d, "extra1.txt")], [os.path.join(d, "extra2.txt"), os.path.join(d, "extra1.txt")]], [[os.path.join(d, "missing.txt")]]
    if v == "validate_chdir":
        return [os.path.join(d, "dirA"), os.path.join(d, "dirB")], [os.path.join(d, "nodir")]
    if v == "validate_user":
        return ["www-data", 65534], ["no-such-user-x"]
    if v == "validate_group":
        return ["www-data", 65534], ["no-such-group-x"]
    if v == "validate_dict":
        return [{"X-A": "1"}, {"X-B": "2", "X-C": "3"}], ["notadict"]
    if v == "validate_string_to_addr_list":
        return ["10.0.0.1", "10.0.0.2,10.0.0.3"], ["not-an-ip"]
    if v == "validate_statsd_address":
        return ["localhost:8125", "unix:///tmp/statsd.sock"], ["localhost:notaport"]
    if v == "validate_ssl_version":
        return ["TLSv1_2", "TLSv1_1"], []          # deprecated and ignored: the validator accepts anything
    if v == "validate_header_map_behaviour":
        return ["refuse", "dangerous"], ["nosuch"]
    if v == "validate_string_to_list":
        return ["X_A", "X_B,X_C"], [7]
    if v in ("_validate_callable", "validate_post_request"):
        import inspect
        ar = len(inspect.signature(s.default).parameters) if callable(s.default) else 1
        return [("hookA_" + n, ar), ("hookB_" + n, ar)], [7]
    raise AssertionError("no value table for validator %s (%s)" % (v, n))


def sources_for(s):
    if s.name == "paste":
        # --paste on the command line imports paste.deploy, which is not installed in this sandbox
        return ["env", "file", "fw"]
    if s.cli is None:
        return ["file", "fw"]
    return ["cli", "env", "file", "fw"]


def cli_tokens(s, val):
    """argv tokens that make the command line / env mention setting s with value val, or None if
    that source cannot express it."""
    flag = s.cli[-1]
    if s.action == "store_true":
        return [flag] if val is True else None
    if s.action == "store_const":
        return [flag] if val == s.const else None
    if s.action == "append":
        out = []
        for x in val:
            out += [flag, str(x)]
        return out
    return [flag, str(val)]


def render_file(assign, callables):
    lines = []
    for name, val in assign.items():
        if name in callables:
            hname, ar = val
            lines.append("def %s(%s):\n    pass\n%s = %s" % (hname, ", ".join("a%d" % i for i in range(ar)), name, hname))
        else:
            lines.append("%s = %r" % (name, val))
    return "\n".join(lines) + "\n"


def load(cli=None, env=None, file=None, fw=None, conf_path=None, cli_conf=None, env_conf=None, reload_to=None, no_app=False, env_raw=None):
    """One real configuration load.  cli/env: token lists; file: text of ./gunicorn.conf.py (or of
    conf_path); fw: dict for init().  Returns ('ok', {name: value}) or ('error', text)."""
    st = _setup()
    d = st["dir"]
    from gunicorn.app.wsgiapp import WSGIApplication

    class FwApp(WSGIApplication):
        fw = None

        def init(self, parser, opts, args):
            super().init(parser, opts, args)
            return self.fw

    def apply(cli, env, file, fw, cli_conf, env_conf):
        default_conf = os.path.join(d, "gunicorn.conf.py")
        if os.path.exists(default_conf):
            os.unlink(default_conf)
        if file is not None and conf_path is None:
            open(default_conf, "w").write(file)
        argv = ["gunicorn"] + (["-c", cli_conf] if cli_conf else []) + list(cli or []) + ([] if no_app else ["app:app"])
        sys.argv = argv
        e = (["-c", env_conf] if env_conf else []) + list(env or [])
        if e:
            os.environ["GUNICORN_CMD_ARGS"] = " ".join(shlex.quote(x) for x in e)
        else:
            os.environ.pop("GUNICORN_CMD_ARGS", None)
        if env_raw is not None:
            os.environ["GUNICORN_CMD_ARGS"] = env_raw           # exactly as an administrator would write it
        FwApp.fw = fw

    def snapshot(app):
        out = {}
        for name, setting in app.cfg.settings.items():
            v = setting.get()
            if callable(v) and not isinstance(v, type):
                v = "callable:" + getattr(v, "__name__", repr(v))
            out[name] = v
        return out

    saved_argv, saved_path = sys.argv, list(sys.path)
    devnull = open(os.devnull, "w")
    saved_err, saved_out = sys.stderr, sys.stdout
    sys.stderr = sys.stdout = devnull
    try:
        os.chdir(d)
        apply(cli, env, file, fw, cli_conf, env_conf)
        try:
            app = FwApp("%(prog)s [OPTIONS] [APP_MODULE]", prog="gunicorn")
            if reload_to is not None:
                # no chdir here: like a running master, the process stays wherever the first load left it
                apply(**reload_to)
                app.reload()
            return "ok", snapshot(app)
        except SystemExit as e:
            return "error", "SystemExit(%r)" % (e.code,)
        except Exception as e:
            return "error", "%s: %s" % (type(e).__name__, e)
    finally:
        sys.stderr, sys.stdout = saved_err, saved_out
        devnull.close()
        sys.argv = saved_argv
        sys.path[:] = saved_path
        os.environ.pop("GUNICORN_CMD_ARGS", None)
        os.chdir(d)


def normalise(name, val, callables):
    from gunicorn.config import Config
    import contextlib
    import io
    c = Config()
    if name in callables:
        return "callable:" + val[0]
    with contextlib.redirect_stdout(io.StringIO()), contextlib.redirect_stderr(io.StringIO()):
        c.set(name, val)
    return c.settings[name].get()


def defaults():
    from gunicorn.config import Config
    out = {}
    for name, setting in Config().settings.items():
        v = setting.get()
        if callable(v) and not isinstance(v, type):
            v = "callable:" + getattr(v, "__name__", repr(v))
        out[name] = v
    return out


def build_sources(s, assign, callables):
    """assign: {source: value}; returns kwargs for load() or None if a source cannot express its value"""
    kw = {}
    for src, val in assign.items():
        if src in ("cli", "env"):
            if s.name in callables:
                return None
            toks = cli_tokens(s, val)
            if toks is None:
                return None
            kw[src] = toks
        elif src == "file":
            kw["file"] = render_file({s.name: val}, callables)
        else:
            kw["fw"] = {s.name: (_mk_hook(*val) if s.name in callables else val)}
    return kw


def _setting_task(name):
    st = _setup()
    d = st["dir"]
    from gunicorn.config import Config
    s = Config().settings[name]
    callables = {n for n, x in Config().settings.items() if getattr(x.validator, "__name__", "") in ("_validate_callable", "validate_post_request")}
    table = value_table(s, d)
    evals = nontriv = 0
    viols = {}
    dflt = defaults()
    dflt["default_proc_name"] = "app:app"
    if table is None:
        return {"evals": 0, "nontriv": 0, "viols": [], "key": name, "skipped": True}
    values, invalid = table
    srcs = sources_for(s)

    def note(fp, text, case):
        if fp not in viols:
            viols[fp] = violation(fp, "setting %s: %s" % (name, text), dict(case, setting=name))

    def check(assign, kw, extra=""):
        nonlocal evals, nontriv
        evals += 1
        if len(set(map(repr, assign.values()))) > 1:
            nontriv += 1
        status, snap = load(**kw)
        winner = next(x for x in ORDER if x in assign)
        case = {"assign": {k: repr(v) for k, v in assign.items()}}
        if status != "ok":
            note("valid-value-rejected:%s" % winner, "sources %r%s: load failed: %s" % (assign, extra, snap), case)
            return
        want = normalise(name, assign[winner], callables)
        if snap[name] != want:
            losers = [x for x in assign if x != winner and snap[name] == normalise(name, assign[x], callables)]
            fp = "precedence:%s-over-%s" % (losers[0], winner) if losers else "effective-value:%s" % winner
            note(fp, "sources %r%s: effective %r, the most authoritative source (%s) says %r" % (assign, extra, snap[name], winner, want), case)
        for other, v in snap.items():
            if other == name or other == "config":
                continue
            if name == "paste" and other in ("default_proc_name", "logconfig"):
                continue
            if v != dflt[other]:
                note("unmentioned-setting-changed", "sources %r: setting %s became %r (default %r)" % (assign, other, v, dflt[other]), case)
                break

    # every non-empty subset of sources x every assignment of the two values
    for k in range(1, len(srcs) + 1):
        for subset in itertools.combinations(srcs, k):
            for vals in itertools.product(values, repeat=k):
                assign = dict(zip(subset, vals))
                kw = build_sources(s, assign, callables)
                if kw is None:
                    continue
                check(assign, kw)
    # invalid values: per source
    for src in srcs:
        for bad in invalid:
            if src in ("cli", "env"):
                if s.action in ("store_true", "store_const") or name in callables:
                    continue
                toks = [s.cli[-1], str(bad[0] if isinstance(bad, list) else bad)]
                if isinstance(bad, int) and getattr(s.validator, "__name__", "") != "validate_pos_int":
                    continue              # a number is a perfectly good string on a command line
                kw = {src: toks}
            elif src == "file":
                kw = {"file": "%s = %r\n" % (name, bad)}
            else:
                kw = {"fw": {name: bad}}
            evals += 1
            nontriv += 1
            status, snap = load(**kw)
            if status == "ok":
                note("invalid-value-accepted:%s" % src, "%s gave the invalid value %r; startup went on with %r" % (src, bad, snap[name]),
                     {"invalid": repr(bad), "src": src})
    # values of the wrong python type (configuration file and framework defaults can carry any object)
    vname = getattr(s.validator, "__name__", "")
    wrong = {"validate_user": [("www-data",), ["root"], 1.5], "validate_group": [("www-data",), ["root"], 1.5],
             "validate_string": [("x",), 1.5], "validate_pos_int": [("3",), [3]], "validate_bool": [("true",), 1.5]}.get(vname, [])
    if name == "paste":
        wrong = []
    for src in ("file", "fw"):
        if src not in srcs:
            continue
        for bad in wrong:
            kw = {"file": "%s = %r\n" % (name, bad)} if src == "file" else {"fw": {name: bad}}
            evals += 1
            nontriv += 1
            status, snap = load(**kw)
            if status == "ok":
                note("invalid-value-accepted:%s:wrong-type" % src, "%s gave %r (wrong type for this setting); startup went on with %r" % (src, bad, snap[name]),
                     {"invalid": repr(bad), "src": src})
    # only the documented (lower-case) name of a setting is a setting: any other variable of the configuration file is just a variable
    if name not in callables:
        for variant in (name.upper(), name.title(), "_" + name, name + "_"):
            if variant == name:
                continue
            evals += 1
            nontriv += 1
            status, snap = load(file="%s = %r\n" % (variant, values[0]))
            if status != "ok":
                note("unrelated-variable-rejected", "a configuration file that assigns the variable %s failed to load: %s" % (variant, snap), {"variant": variant})
            elif snap[name] != dflt[name]:
                note("unrelated-variable-applied", "the configuration file assigns %s = %r (not a setting name); setting %s became %r (default %r)" % (
                    variant, values[0], name, snap[name], dflt[name]), {"variant": variant})
    # the application named by the configuration file (wsgi_app) instead of the command line: the file's other mentions count all the same
    if "file" in srcs and name not in ("wsgi_app", "paste"):
        evals += 1
        nontriv += 1
        txt = "wsgi_app = 'app:app'\n" + render_file({name: values[0]}, callables)
        status, snap = load(file=txt, no_app=True)
        want = normalise(name, values[0], callables)
        if status != "ok":
            note("valid-value-rejected:file+wsgi_app", "file mentions wsgi_app and %s: load failed: %s" % (name, snap), {})
        elif snap[name] != want:
            note("effective-value:file+wsgi_app", "the configuration file names the application (wsgi_app) and sets %s = %r; effective value %r" % (
                name, values[0], snap[name]), {})
    # a source may mention a setting with the value None (where the setting accepts it): that is a mention like any other
    try:
        none_norm = normalise(name, None, callables) if name not in callables else "<n/a>"
        v0_norm = normalise(name, values[0], callables)
    except Exception:
        none_norm = v0_norm = "<n/a>"
    if "file" in srcs and "fw" in srcs and none_norm != "<n/a>" and none_norm != v0_norm and name != "paste":
        evals += 1
        nontriv += 1
        status, snap = load(file="%s = None\n" % name, fw={name: values[0]})
        if status != "ok":
            note("valid-value-rejected:file", "the configuration file says %s = None (a value the setting accepts): load failed: %s" % (name, snap), {})
        elif snap[name] != none_norm:
            note("precedence:fw-over-file" if snap[name] == v0_norm else "effective-value:file",
                 "the configuration file says %s = None, the framework default %r: effective %r, the file's None means %r" % (name, values[0], snap[name], none_norm), {})
    # reload histories: S1 -> S2 must equal a fresh load of S2
    hist = []
    f1 = build_sources(s, {"file": values[0]}, callables)
    f2 = build_sources(s, {"file": values[1]}, callables)
    hist.append(("file-v1 -> nothing", f1, {}))
    hist.append(("nothing -> file-v2", {}, f2))
    hist.append(("file-v1 -> file-v2", f1, f2))
    if "env" in srcs:
        e1 = build_sources(s, {"env": values[0]}, callables)
        if e1:
            hist.append(("env-v1 -> file-v2", e1, f2))
            hist.append(("file-v2 -> env-v1", f2, e1))
    if name == "spew":
        hist = []          # reload() with spew=True installs a process-wide trace function
    for label, s1, s2 in hist:
        full2 = {"cli": None, "env": None, "file": None, "fw": None, "cli_conf": None, "env_conf": None}
        full2.update(s2)
        evals += 1
        nontriv += 1
        st1, snap1 = load(reload_to=full2, **s1)
        st2, snap2 = load(**s2)
        if st1 != st2 or (st1 == "ok" and snap1 != snap2):
            diff = [k for k in (snap1 if isinstance(snap1, dict) else {}) if isinstance(snap2, dict) and snap1[k] != snap2.get(k)]
            note("reload-differs-from-fresh-load", "history %s: after reload %s, fresh load %s" % (
                label, {k: snap1[k] for k in diff} if diff else snap1, {k: snap2[k] for k in diff} if diff else snap2),
                {"history": label})
    return {"evals": evals, "nontriv": nontriv, "viols": list(viols.values()), "key": name, "skipped": False}


def _config_task(_):
    """which configuration file is read: -c on the command line over -c in GUNICORN_CMD_ARGS over ./gunicorn.conf.py"""
    st = _setup()
    d = st["dir"]
    evals = 0
    viols = []
    pa, pb = os.path.join(d, "confA.py"), os.path.join(d, "confB.py")
    open(pa, "w").write("proc_name = 'from-cli-file'\nworkers = 3\n")
    open(pb, "w").write("proc_name = 'from-env-file'\nthreads = 5\n")
    dflt_text = "proc_name = 'from-default-file'\nbacklog = 99\n"
    for use_cli, use_env, use_default in itertools.product((False, True), repeat=3):
        evals += 1
        status, snap = load(file=dflt_text if use_default else None, cli_conf=pa if use_cli else None, env_conf=pb if use_env else None)
        want = "from-cli-file" if use_cli else "from-env-file" if use_env else "from-default-file" if use_default else None
        exp = {"proc_name": want, "workers": 3 if use_cli else 1, "threads": 5 if (use_env and not use_cli) else 1,
               "backlog": 99 if (use_default and not use_cli and not use_env) else 2048,
               "config": pa if use_cli else pb if use_env else "./gunicorn.conf.py"}
        if status != "ok":
            viols.append(violation("config-file-selection:load-failed", "cli=%s env=%s default=%s: %s" % (use_cli, use_env, use_default, snap), {}))
            continue
        got = {k: snap[k] for k in exp}
        if got != exp:
            viols.append(violation("config-file-selection", "-c on command line=%s, -c in env=%s, ./gunicorn.conf.py=%s: got %r expected %r" % (
                use_cli, use_env, use_default, got, exp), {"cli": use_cli, "env": use_env, "default": use_default}))
    # every spelling of the file source names the same file: absolute, relative, with the explicit file: prefix
    for sub in ("etc", "live", "file", "conf.d"):
        os.makedirs(os.path.join(d, sub), exist_ok=True)
        open(os.path.join(d, sub, "c.py"), "w").write("proc_name = 'from-%s'\nworkers = 4\n" % sub)
        for spelling in (os.path.join(d, sub, "c.py"), "file:" + os.path.join(d, sub, "c.py"), "%s/c.py" % sub, "./%s/c.py" % sub,
                         "file:%s/c.py" % sub, "file:./%s/c.py" % sub):
            for via in ("cli", "env"):
                evals += 1
                status, snap = load(cli_conf=spelling) if via == "cli" else load(env_conf=spelling)
                if status != "ok":
                    viols.append(violation("config-file-selection:spelling-not-loaded", "-c %s (%s): %s" % (spelling.replace(d, "<dir>"), via, snap), {"spelling": spelling.replace(d, "<dir>")}))
                elif (snap["proc_name"], snap["workers"]) != ("from-" + sub, 4):
                    viols.append(violation("config-file-selection:spelling-ignored", "-c %s (%s): proc_name=%r workers=%r, the file says %r and 4" % (
                        spelling.replace(d, "<dir>"), via, snap["proc_name"], snap["workers"], "from-" + sub), {"spelling": spelling.replace(d, "<dir>")}))
    # reload histories of the file source when the configuration moves the working directory
    for label, first, conf_kw in (("default-file", "chdir = %r\nworkers = 3\nproc_name = 'one'\n" % os.path.join(d, "dirA"), {}),
                                 ("relative -c", None, {"cli_conf": "etc/rel.py"}), ("relative -c in env", None, {"env_conf": "etc/rel.py"})):
        open(os.path.join(d, "etc", "rel.py"), "w").write("chdir = %r\nworkers = 3\nproc_name = 'one'\n" % os.path.join(d, "dirA"))
        full = {"cli": None, "env": None, "file": first, "fw": None, "cli_conf": conf_kw.get("cli_conf"), "env_conf": conf_kw.get("env_conf")}
        evals += 1
        st1, snap1 = load(file=first, reload_to=full, **conf_kw)
        st2, snap2 = load(file=first, **conf_kw)
        if st1 != st2 or (st1 == "ok" and snap1 != snap2):
            diff = [k for k in (snap1 if isinstance(snap1, dict) else {}) if isinstance(snap2, dict) and snap1[k] != snap2.get(k)]
            viols.append(violation("reload-differs-from-fresh-load:chdir-in-config", "%s sets chdir; reload with nothing changed: %s, fresh load: %s" % (
                label, {k: snap1[k] for k in diff} if diff else snap1, {k: snap2[k] for k in diff} if diff else snap2), {"history": label}))
    # GUNICORN_CMD_ARGS is split like a command line: characters that mean nothing special inside a word stay what they are
    for raw, want in (("--name=web#1 --workers 3", {"proc_name": "web#1", "workers": 3}),
                      ("--workers 3 --name web#1 --threads 5", {"proc_name": "web#1", "workers": 3, "threads": 5}),
                      ("--name 'a b' --backlog 7", {"proc_name": "a b", "backlog": 7}),
                      ("--name a\\ b --backlog 7", {"proc_name": "a b", "backlog": 7}),
                      ("--name=x;y --workers 2", {"proc_name": "x;y", "workers": 2}),
                      ("--name=$HOME --workers 2", {"proc_name": "$HOME", "workers": 2}),
                      ("-b unix:/tmp/x#1.sock -w 2", {"bind": ["unix:/tmp/x#1.sock"], "workers": 2})):
        evals += 1
        status, snap = load(env_raw=raw)
        if status != "ok":
            viols.append(violation("env-splitting:load-failed", "GUNICORN_CMD_ARGS=%r: %s" % (raw, snap), {}))
        elif any(snap[k] != v for k, v in want.items()):
            viols.append(violation("env-splitting", "GUNICORN_CMD_ARGS=%r: effective %r, it says %r" % (raw, {k: snap[k] for k in want}, want), {}))
    # a relative --chdir is relative to where the server was started, whatever the configuration file says about chdir
    os.makedirs(os.path.join(d, "dirA", "dirB"), exist_ok=True)
    for via in ("cli", "env"):
        for filetext in ("chdir = %r\n" % os.path.join(d, "dirA"), None):
            evals += 1
            kw = {"cli": ["--chdir", "dirB"]} if via == "cli" else {"env": ["--chdir", "dirB"]}
            status, snap = load(file=filetext, **kw)
            if status != "ok" or snap["chdir"] != os.path.join(d, "dirB"):
                viols.append(violation("relative-chdir-resolved-against-file", "--chdir dirB (%s), configuration file %s: effective chdir %r, expected %r" % (
                    via, "sets chdir to dirA" if filetext else "absent", snap["chdir"] if status == "ok" else snap, os.path.join(d, "dirB")), {}))
    # a syntactically broken / missing file stops startup
    for text, label in (("workers = = 3\n", "syntax-error"), (None, "missing")):
        evals += 1
        p = os.path.join(d, "broken.py")
        if text is None:
            if os.path.exists(p):
                os.unlink(p)
        else:
            open(p, "w").write(text)
        status, snap = load(cli_conf=p)
        if status == "ok":
            viols.append(violation("config-file-selection:broken-file-accepted", "%s config file and startup went on" % label, {}))
    return {"evals": evals, "nontriv": evals, "viols": viols, "key": "~config", "skipped": False}


def _hooks_task(_):
    """Normalisation of hook settings may wrap the user's function (post_request accepts 2, 3 or 4 parameters): whatever
    the wrapper, the user's function must be called with the documented arguments in the documented order."""
    st = _setup()
    d = st["dir"]
    import inspect
    from gunicorn.config import Config
    from gunicorn.app.wsgiapp import WSGIApplication
    viols = []
    evals = 0
    hooks = {n: s_ for n, s_ in Config().settings.items() if getattr(s_.validator, "__name__", "") in ("_validate_callable", "validate_post_request")}
    for name, s_ in sorted(hooks.items()):
        full = len(inspect.signature(s_.default).parameters)
        arities = (2, 3, 4) if name == "post_request" else (full,)
        for ar in arities:
            for src in ("file", "fw"):
                evals += 1
                args = ", ".join("a%d" % i for i in range(ar))
                text = "SEEN = []\ndef %s(%s):\n    SEEN.append((%s%s))\n" % (name, args, args, "," if ar == 1 else "")
                saved_argv = sys.argv
                try:
                    os.chdir(d)
                    conf = os.path.join(d, "gunicorn.conf.py")
                    if os.path.exists(conf):
                        os.unlink(conf)
                    ns = {}
                    if src == "file":
                        open(conf, "w").write(text)
                    else:
                        exec(text, ns)
                    sys.argv = ["gunicorn", "app:app"]

                    class FwApp(WSGIApplication):
                        def init(self_, parser, opts, a):
                            super().init(parser, opts, a)
                            return {name: ns[name]} if src == "fw" else None
                    app = FwApp("%(prog)s [OPTIONS] [APP_MODULE]", prog="gunicorn")
                    eff = getattr(app.cfg, name)
                    sent = tuple("arg%d" % i for i in range(max(full, ar)))
                    eff(*sent)
                    if src == "file":
                        seen = eff.__globals__.get("SEEN") if hasattr(eff, "__globals__") and "SEEN" in eff.__globals__ else None
                        if seen is None:
                            # a wrapper: find the user's function in its closure
                            for cell in (getattr(eff, "__closure__", None) or ()):
                                f = cell.cell_contents
                                if callable(f) and "SEEN" in getattr(f, "__globals__", {}):
                                    seen = f.__globals__["SEEN"]
                    else:
                        seen = ns["SEEN"]
                    want = [sent[:ar]]
                    if seen != want:
                        viols.append(violation("hook-arguments:%s" % name, "%s given by %s with %d parameters, called as %s(%s): the user's function received %r, expected %r" % (
                            name, src, ar, name, ", ".join(sent), seen, want), {"hooks": True}))
                except SystemExit as e:
                    viols.append(violation("hook-rejected:%s" % name, "%s with %d parameters (%s): startup failed (%r)" % (name, ar, src, e.code), {"hooks": True}))
                except Exception as e:
                    viols.append(violation("hook-arguments:%s" % name, "%s with %d parameters (%s): %s: %s" % (name, ar, src, type(e).__name__, e), {"hooks": True}))
                finally:
                    sys.argv = saved_argv
                    if os.path.exists(os.path.join(d, "gunicorn.conf.py")):
                        os.unlink(os.path.join(d, "gunicorn.conf.py"))
    return {"evals": evals, "nontriv": evals, "viols": viols[:3], "key": "~hooks", "skipped": False}


def _pair_task(t):
    """Two settings mentioned by two different sources: each gets its own value, nothing else moves."""
    _tag, a_name, b_names = t
    st = _setup()
    d = st["dir"]
    from gunicorn.config import Config
    settings = Config().settings
    callables = {n for n, x in settings.items() if getattr(x.validator, "__name__", "") in ("_validate_callable", "validate_post_request")}
    dflt = defaults()
    dflt["default_proc_name"] = "app:app"
    ta = value_table(settings[a_name], d)
    evals = 0
    viols = {}
    if ta is None:
        return {"evals": 0, "nontriv": 0, "viols": [], "key": "~pair:" + a_name, "skipped": False}
    for b_name in b_names:
        if b_name == a_name:
            continue
        tb = value_table(settings[b_name], d)
        if tb is None or {a_name, b_name} & {"paste", "chdir"} and {a_name, b_name} & {"default_proc_name", "logconfig"}:
            continue
        for (sa, sb) in (("file", "env"), ("fw", "file"), ("env", "cli"), ("cli", "fw")):
            if sa not in sources_for(settings[a_name]) or sb not in sources_for(settings[b_name]):
                continue
            ka = build_sources(settings[a_name], {sa: ta[0][0]}, callables)
            kb = build_sources(settings[b_name], {sb: tb[0][1]}, callables)
            if ka is None or kb is None:
                continue
            kw = {}
            for k_, v_ in list(ka.items()) + list(kb.items()):
                if k_ in kw and k_ in ("cli", "env"):
                    kw[k_] = kw[k_] + v_
                elif k_ in kw and k_ == "fw":
                    kw[k_] = dict(kw[k_], **v_)
                elif k_ in kw and k_ == "file":
                    kw[k_] = kw[k_] + v_
                else:
                    kw[k_] = v_
            evals += 1
            status, snap = load(**kw)
            if status != "ok":
                viols.setdefault("pair:load-failed", violation("pair:load-failed", "%s via %s and %s via %s: %s" % (a_name, sa, b_name, sb, snap), {"pair": [a_name, b_name]}))
                continue
            wa, wb = normalise(a_name, ta[0][0], callables), normalise(b_name, tb[0][1], callables)
            if snap[a_name] != wa or snap[b_name] != wb:
                viols.setdefault("pair:values-interfere", violation("pair:values-interfere", "%s=%r via %s and %s=%r via %s: effective %r / %r" % (
                    a_name, ta[0][0], sa, b_name, tb[0][1], sb, snap[a_name], snap[b_name]), {"pair": [a_name, b_name]}))
            for other, v in snap.items():
                if other in (a_name, b_name, "config"):
                    continue
                if "paste" in (a_name, b_name) and other in ("default_proc_name", "logconfig"):
                    continue
                if v != dflt[other]:
                    viols.setdefault("pair:unmentioned-setting-changed", violation("pair:unmentioned-setting-changed", "%s via %s and %s via %s: %s became %r" % (
                        a_name, sa, b_name, sb, other, v), {"pair": [a_name, b_name]}))
                    break
    return {"evals": evals, "nontriv": evals, "viols": list(viols.values()), "key": "~pair:" + a_name, "skipped": False}


def _task(t):
    if isinstance(t, tuple) and t[0] == "~pair":
        r = _pair_task(t)
    elif t == "~config":
        r = _config_task(t)
    elif t == "~hooks":
        r = _hooks_task(t)
    else:
        r = _setting_task(t)
    r["scratch"] = _STATE.get("dir")        # pool workers do not run atexit handlers: the parent removes the directories
    return r


def setting_names():
    # import in a throwaway child so that the parent never imports gunicorn.config from /verif
    import subprocess
    out = subprocess.run([sys.executable, "-c", "from gunicorn.config import KNOWN_SETTINGS; print(' '.join(s.name for s in KNOWN_SETTINGS))"],
                         capture_output=True, text=True, check=True)
    return out.stdout.split()


def run(ctx):
    names = setting_names()
    tasks = names + ["~config", "~hooks"]
    # pairs of settings mentioned by two different sources (thorough: all ordered pairs; quick: each setting with 6 partners)
    for i, a in enumerate(names):
        partners = names if ctx.thorough else [names[(i + j * 13 + 1) % len(names)] for j in range(6)]
        tasks.append(("~pair", a, partners))
    random.Random(ctx.seed).shuffle(tasks)
    res = par.pmap(_task, tasks, chunksize=1)
    for dpath in {r.get("scratch") for r in res}:
        if dpath and os.path.basename(dpath).startswith("verif-c16-"):
            shutil.rmtree(dpath, ignore_errors=True)
    res.sort(key=lambda r: r["key"])
    viols = [v for r in res for v in r["viols"]]
    skipped = [r["key"] for r in res if r.get("skipped")]
    cov = {
        "evaluations": sum(r["evals"] for r in res),
        "distinct_nontrivial": sum(r["nontriv"] for r in res),
        "rule": "one case per (setting, non-empty subset of mentioning sources, assignment of two valid values), per (setting, source, invalid value), "
                "per reload history, per config-file selection; non-trivial = at least two sources disagree, or an invalid value, or a reload history",
        "samples": [{"setting": "workers", "cli": 0, "env": 7, "file": 7}, {"setting": "sendfile", "env": False, "file": True},
                    {"setting": "on_starting", "file": "hookA", "fw": "hookB"}],
        "exhaustive": True,
        "settings": len(names),
        "settings_with_own_test": skipped,
    }
    return Result("exploration", cov, viols,
                  ["framework defaults = a WSGIApplication subclass whose init() returns a dict (the documented custom-application path)",
                   "a positional app:app is always given, so default_proc_name is expected to be 'app:app'",
                   "store_true / store_const options can only say True / False on the command line; those cells are enumerated only where expressible"])


def replay(case):
    if "pair" in case:
        r = _pair_task(("~pair", case["pair"][0], [case["pair"][1]]))
        return r["viols"][0] if r["viols"] else None
    if case.get("hooks"):
        r = _task("~hooks")
        return r["viols"][0] if r["viols"] else None
    r = _task(case.get("setting", "~config"))
    return r["viols"][0] if r["viols"] else None
