"""C18 - max_requests recycles workers without losing requests.

(a) counting rule, in-process (vlib.bench): max_requests x jitter answer x worker x request history:
    `alive` turns false exactly at request number max_requests + jitter, every request up to then is
    answered in full, with 0 the worker never stops; two keep-alive connections interleaved on one
    async/threaded worker: after the limit each other connection gets at most its next request.
(b) threaded worker under the controlled scheduler (vlib.gtbench) with the limit on: all histories
    to a depth x schedules: nothing is dispatched after the limit except what was accepted before,
    and no accepted connection holding a complete request is dropped when the loop exits.
(c) real servers: class x max x jitter x {sequential, 4 concurrent clients}: per-pid served count,
    zero client errors, pids change; with 0 the pid set is constant."""
import os
import random
import socket
import threading
import time

from vlib import bench, par, realproc as rp, rfc_response
from vlib.runner import Result, violation
from props import c13

REQ_KA = b"GET /r HTTP/1.1\r\nHost: h\r\n\r\n"
REQ_CLOSE = b"GET /r HTTP/1.1\r\nHost: h\r\nConnection: close\r\n\r\n"


class App:
    def __init__(self):
        self.calls = 0

    def __call__(self, environ, start_response):
        self.calls += 1
        start_response("200 OK", [("Content-Length", "2")])
        return [b"ok"]


def count_cell(cell):
    kind, kw, maxr, jitter_cfg, jitter_answer, mode = cell
    import gunicorn.workers.base as B
    saved = B.randint
    B.randint = lambda a, b: min(jitter_answer, b)
    app = App()
    kw = dict(kw)
    kw.update({"max_requests": maxr, "max_requests_jitter": jitter_cfg})
    try:
        b = bench.Bench(kind, kw, app)
    finally:
        B.randint = saved
    limit = (maxr + min(jitter_answer, jitter_cfg)) if maxr else None
    n = (limit or 3) + 2
    bad = None
    try:
        served = 0
        if mode == "one-per-connection":
            for i in range(n):
                was_alive = b.worker.alive
                o = b.connection(REQ_CLOSE)
                if o.exc:
                    bad = ("exception-escaped-handle", o.exc)
                    break
                ok = o.wire.startswith(b"HTTP/1.1 200 OK") and o.wire.endswith(b"ok")
                if not ok:
                    bad = ("request-not-answered", "request %d (limit %s) got %r" % (i + 1, limit, o.wire[:60]))
                    break
                served += 1
                want_alive = limit is None or served < limit
                if b.worker.alive != want_alive:
                    bad = ("limit-off-by-one" if limit else "recycled-without-limit",
                           "after %d requests alive=%s, max_requests=%d jitter=%d (limit %s)" % (served, b.worker.alive, maxr, min(jitter_answer, jitter_cfg), limit))
                    break
                if not b.worker.alive:
                    break       # a real worker leaves its loop now
        else:
            # one keep-alive connection carrying n requests
            o = b.connection(REQ_KA * n)
            if o.exc:
                bad = ("exception-escaped-handle", o.exc)
            else:
                resps, problems = rfc_response.read_all(o.wire, [b"GET"] * n, True)
                good = [r for r in resps if r.complete and r.code == 200 and r.body == b"ok"]
                want = n if limit is None else min(n, limit)
                if kind == "sync" or not kw.get("keepalive", 2):
                    want = 1
                if len(good) != len(resps) or problems:
                    bad = ("response-cut", "%d responses, %d complete; %s" % (len(resps), len(good), problems))
                elif len(good) != want:
                    bad = ("keepalive-requests-after-limit" if len(good) > want else "request-not-answered",
                           "%d requests answered on one keep-alive connection, limit %s (expected %d)" % (len(good), limit, want))
                elif limit is not None and kind != "sync" and b"close" not in good[-1].tokens(b"connection"):
                    bad = ("limit-response-not-closing", "the response that reached the limit does not announce Connection: close")
                elif (limit is not None and want == limit and b.worker.alive) or (limit is None and not b.worker.alive):
                    bad = ("limit-off-by-one" if limit else "recycled-without-limit", "alive=%s after %d requests, limit %s" % (b.worker.alive, len(good), limit))
    finally:
        b.close()
    return bad


def interleave_cell(cell):
    """Two keep-alive connections on one worker; the limit is reached by B's first request."""
    kind, kw = cell
    import gunicorn.workers.base as B
    saved = B.randint
    B.randint = lambda a, b: 0
    kw = dict(kw)
    kw.update({"max_requests": 2})
    app = App()
    try:
        b = bench.Bench(kind, kw, app)
    finally:
        B.randint = saved
    il = bench.Interleaver(b)
    try:
        il.open("A", ("10.0.0.1", 1))
        il.open("B", ("10.0.0.2", 2))
        a1 = il.send("A", REQ_KA)
        b1 = il.send("B", REQ_KA)       # request number 2 = the limit
        if b.worker.alive:
            return ("limit-off-by-one", "alive after 2 requests with max_requests=2")
        a2 = il.send("A", REQ_KA)       # was accepted before the limit: may be served once, must announce close
        a3 = il.send("A", REQ_KA)
        a4 = il.send("A", REQ_KA)
        extra = a3.count(b"200 OK") + a4.count(b"200 OK")
        if a2.count(b"200 OK") and b"Connection: close" not in a2:
            return ("served-after-limit-without-closing", "after the limit was reached on another connection, this keep-alive connection was served again without Connection: close")
        if extra:
            return ("keeps-serving-after-limit", "%d further requests were served on a keep-alive connection after the worker reached max_requests" % extra)
        return None
    finally:
        for n_ in ("A", "B"):
            try:
                il.close(n_)
            except Exception:
                pass
        b.close()


# ---------------------------------------------------------------- (b) gthread under the scheduler ----

def gt_invariants(w):
    """extra verdicts for a World with max_requests on, evaluated when run() has returned"""
    bad = []
    wk = w.worker
    if w.limit_poll is not None:
        late = [c for c in w.accepted if getattr(c, "accept_poll", 0) > w.limit_poll + 1]
        if late:
            bad.append(("accepting-after-limit", "the worker reached max_requests in main-loop round %d and accepted connection %s in round %d: it goes on taking new work "
                        "while old requests are pending" % (w.limit_poll, late[0].name, late[0].accept_poll)))
    if w.run_returned:
        for c in w.accepted:
            answered = c.wbuf.count(b"HTTP/1.1 200 OK")
            if c.closed and answered < c.total_in and not c.peer_closed:
                bad.append(("accepted-request-dropped-at-recycle", "accepted connection %s sent %d request(s), got %d answer(s), and was closed by the worker when it "
                            "recycled although its client was still waiting" % (c.name, c.total_in, answered)))
            if not c.closed and answered < max(1, c.total_in) and c.in_job is None:
                bad.append(("accepted-connection-dropped-at-recycle", "run() returned (max_requests reached) while accepted connection %s was never served "
                            "(%d request(s) sent on it, %d answered): its client gets an empty reply" % (c.name, c.total_in, answered)))
    return bad


def _gt_task(t):
    cfg, hist = t
    drain = [[("tick",)]] * 4
    r = c13.run_history(cfg, hist, drain=None, final_check=gt_invariants)
    bad = []
    if r["error"] and r["error"][0] not in ("livelock",):
        bad.append((r["error"][0], r["error"][1]))
    w = r["world"]
    bad += r.get("final") or []
    limit = cfg["max_requests"]
    if w.worker.nr > limit + cfg["threads"] + 1:
        bad.append(("dispatched-after-limit", "nr=%d with max_requests=%d" % (w.worker.nr, limit)))
    return {"hist": hist, "bad": bad, "canon": r["canon"], "returned": w.run_returned}


def gt_explore(cfg, depth, P):
    """reuse C13's expansion (events x schedules) with the limit switched on; judge every reached state"""
    seen = {}
    start = [(tuple(tuple(e) for e in evs), []) for evs in cfg.get("prefix", [])]
    r0 = c13.run_history(cfg, start)
    start = [(evs, [c[1] for c in r0["segments"][i]]) for i, (evs, _ch) in enumerate(start)]
    seen[r0["canon"]] = start
    frontier = [start]
    viols = {}
    states = transitions = execs = 0
    for d in range(depth):
        res = par.pmap(c13._expand_task, [(cfg, h, P, True) for h in frontier], chunksize=1)
        nxt = []
        for r in res:
            execs += r["execs"]
            for fp, text, evs, ch in r.get("viols", []):
                # the general connection-accounting invariants are C13's business; here only hard errors count
                if fp not in ("deadlock", "replay", "task-exception", "run-raised"):
                    continue
                viols.setdefault(fp, violation("gthread:" + fp, "cfg=%r history=%r: %s" % (cfg, [list(map(list, e)) for e, _ in r["hist"]] + [list(map(list, evs))], text),
                                               {"part": "gthread", "cfg": cfg, "history": c13.ser_hist(r["hist"] + [(evs, ch)])}))
            for key, evs, ch in r["succ"]:
                transitions += 1
                if key not in seen:
                    seen[key] = r["hist"] + [(evs, ch)]
                    states += 1
                    nxt.append(seen[key])
        frontier = nxt
        if not frontier:
            break
    res = par.pmap(_gt_task, [(cfg, h) for h in seen.values()], chunksize=8)
    for r in res:
        execs += 1
        for fp, text in r["bad"]:
            viols.setdefault(fp, violation("gthread:" + fp, "cfg=%r history=%r: %s" % (cfg, [list(map(list, e)) for e, _ in r["hist"]], text),
                                           {"part": "gthread", "cfg": cfg, "history": c13.ser_hist(r["hist"])}))
    return {"states": states, "transitions": transitions, "execs": execs, "viols": list(viols.values())}


# ---------------------------------------------------------------- (c) real servers ----------------

def one_request(s, timeout=8, path=b"/plain", extra=None):
    try:
        c = s.connect(timeout=timeout, extra=extra)
    except OSError as e:
        return ("connect", type(e).__name__)
    try:
        c.sendall(b"GET " + path + b" HTTP/1.1\r\nHost: h\r\nConnection: close\r\n\r\n")
        head, body, complete, closed = rp.read_response(c, timeout)
        if complete and body == b"ok":
            return ("ok", rp.header(head, "X-Pid"))
        if not head:
            return ("dropped", "empty reply")
        return ("bad-reply", head[:40])
    except (ConnectionResetError, BrokenPipeError) as e:
        return ("dropped", type(e).__name__)
    except OSError as e:
        return ("io", type(e).__name__)
    finally:
        c.close()


def real_cell(cell):
    wc, maxr, jitter, load, bind = cell
    conf_lines = []
    if load.startswith("sequential+failing-exit-hook"):
        # a server hook that fails in the exiting worker is that worker's problem: the server goes on
        conf_lines = ["def worker_exit(server, worker):\n    raise RuntimeError('worker_exit hook failed')"]
    s = rp.Server(worker_class=wc, workers=1 if load in ("slow-on-second-listener", "sequential+app-error-at-limit", "sequential+failing-exit-hook-1w") else 2, bind=bind, graceful_timeout=3, timeout=30, keepalive=2,
                  threads=2 if wc == "gthread" else None, max_requests=maxr, max_requests_jitter=jitter, conf_lines=conf_lines,
                  extra_binds=1 if load == "slow-on-second-listener" else 0)
    try:
        if not s.start():
            return ("infrastructure", "server did not start")
        time.sleep(0.3)
        first = set(s.workers())
        results = []
        if load == "slow-on-second-listener":
            # a request still running on the second listener when a request on the first one reaches the limit
            slow = []
            th = threading.Thread(target=lambda: slow.append(one_request(s, timeout=12, path=b"/sleep/1.5", extra=0)))
            th.start()
            time.sleep(0.4)
            for i in range(maxr - 1):
                results.append(one_request(s))
            th.join(15)
            if not slow or slow[0][0] != "ok":
                return ("in-flight-request-lost-at-recycle", "a 1.5 s request on the second listener was running when request %d on the first listener reached "
                        "max_requests=%d: it got %r" % (maxr, maxr, slow[:1]))
            time.sleep(0.5)
            for i in range(4):
                results.append(one_request(s))
        elif load in ("sequential", "sequential+failing-exit-hook", "sequential+failing-exit-hook-1w"):
            for i in range(20 if maxr else 30):
                results.append(one_request(s))
                time.sleep(0.02)
        elif load == "sequential+app-error-at-limit":
            # the request that reaches the limit is one the application fails on
            for i in range(maxr - 1):
                results.append(one_request(s))
            one_request(s, path=b"/boom")          # handled request number max_requests of the only worker
            for i in range(12):
                results.append(one_request(s))
                time.sleep(0.02)
        else:
            lock = threading.Lock()

            def client():
                for i in range(10):
                    r = one_request(s)
                    with lock:
                        results.append(r)
            ts = [threading.Thread(target=client) for _ in range(4)]
            for t in ts:
                t.start()
            for t in ts:
                t.join(60)
        errors = [r for r in results if r[0] != "ok"]
        per_pid = {}
        for r in results:
            if r[0] == "ok":
                per_pid[r[1]] = per_pid.get(r[1], 0) + 1
        if s.proc.poll() is not None:
            return ("master-died", "master exited: %s" % s.log_text()[-200:])
        if load.startswith("sequential+failing-exit-hook"):
            time.sleep(0.5)
            pid_now = None
            try:
                pid_now = int(open(s.pidfile).read())
            except (OSError, ValueError):
                pass
            if pid_now != s.master_pid:
                return ("pidfile-lost-at-recycle", "workers were recycled (their worker_exit hook raises): the pid file now holds %r, the master %d is running" % (pid_now, s.master_pid))
            if bind == "unix" and not os.path.exists(s.sockpath):
                return ("socket-file-lost-at-recycle", "the unix socket file is gone although the master runs")
        if errors:
            kinds = set(e[0] for e in errors)
            # one verdict per run, most severe first: could not connect > malformed reply > i/o error > accepted and dropped
            kind = [k for k in ("connect", "bad-reply", "io", "dropped") if k in kinds][0]
            return ("client-error:%s" % kind, "%d of %d requests failed (%s): %r" % (len(errors), len(results), sorted(kinds), errors[:3]))
        if maxr == 0:
            if set(s.workers()) != first or len(per_pid) > 2:
                return ("recycled-without-limit", "workers changed %r -> %r with max_requests=0" % (sorted(first), sorted(s.workers())))
            return None
        allowance = maxr + jitter
        if load == "sequential+app-error-at-limit":
            allowance += 0
        if load == "concurrent" and wc != "sync":
            allowance += 4      # requests already in flight when the limit was reached (at most one per client)
        over = {p: n for p, n in per_pid.items() if n > allowance}
        if over:
            return ("served-beyond-limit", "pid %s served %d requests, max_requests=%d jitter=%d%s" % (
                list(over)[0], list(over.values())[0], maxr, jitter, " (+4 in flight)" if allowance > maxr + jitter else ""))
        if len(per_pid) < 2 and len(results) > 2 * allowance:
            return ("not-recycled", "%d requests all served by %r with max_requests=%d" % (len(results), list(per_pid), maxr))
        return None
    finally:
        s.cleanup()


def real_cells(thorough):
    cells = []
    for wc in ("sync", "gthread", "gevent", "eventlet"):
        if thorough:
            for maxr in (1, 2, 5):
                for jitter in (0, 2):
                    for load in ("sequential", "concurrent"):
                        for bind in ("tcp", "unix"):
                            cells.append((wc, maxr, jitter, load, bind))
            cells.append((wc, 0, 0, "sequential", "tcp"))
        else:
            cells += [(wc, 2, 0, "sequential", "unix"), (wc, 3, 0, "concurrent", "tcp"), (wc, 1, 2, "sequential", "tcp"),
                      (wc, 5, 0, "concurrent", "unix"), (wc, 0, 0, "sequential", "tcp")]
        cells += [(wc, 2, 0, "sequential+failing-exit-hook", "unix"), (wc, 3, 0, "sequential+app-error-at-limit", "tcp"),
                  (wc, 2, 0, "sequential+failing-exit-hook-1w", "tcp")]
        if wc != "sync":
            cells.append((wc, 2, 0, "slow-on-second-listener", "tcp"))
    return cells


WORKERS = [("sync", {}), ("gthread", {"keepalive": 2, "threads": 1, "worker_connections": 4}), ("async", {"keepalive": 2}),
           ("gthread", {"keepalive": 0}), ("async", {"keepalive": 0})]


def run(ctx):
    cells = []
    for kind, kw in WORKERS:
        for maxr in (0, 1, 2, 3):
            for jc in (0, 1, 2):
                for ja in range(0, jc + 1):
                    for mode in ("one-per-connection", "keep-alive"):
                        cells.append((kind, kw, maxr, jc, ja, mode))
    viols = {}
    cres = par.pmap(count_cell, cells, chunksize=8)
    for cell, v in zip(cells, cres):
        if v:
            fp = "count:%s:%s" % (v[0], cell[0])
            viols.setdefault(fp, violation(fp, "worker=%s %r max_requests=%d jitter=%d(answer %d) %s: %s" % (cell[0], cell[1], cell[2], cell[3], cell[4], cell[5], v[1]),
                                           {"part": "count", "cell": [cell[0], cell[1], cell[2], cell[3], cell[4], cell[5]]}))
    icells = [WORKERS[1], WORKERS[2]]
    for cell in icells:
        v = interleave_cell(cell)
        if v:
            fp = "interleave:%s:%s" % (v[0], cell[0])
            viols.setdefault(fp, violation(fp, "worker=%s %r: %s" % (cell[0], cell[1], v[1]), {"part": "interleave", "cell": [cell[0], cell[1]]}))
    gt = {"states": 0, "transitions": 0, "execs": 0}
    for cfg, depth, P in ((({"threads": 1, "worker_connections": 3, "keepalive": 2, "max_requests": 2, "menu_mode": "nopipe"}, 4, 1), ({"threads": 2, "worker_connections": 3, "keepalive": 2, "max_requests": 1, "menu_mode": "nopipe"}, 3, 1),
                           # the limit is reached by a request that stays in flight: what the worker does with further clients meanwhile
                           ({"threads": 2, "worker_connections": 4, "keepalive": 2, "max_requests": 1, "menu_mode": "nopipe", "nclients": 3,
                             "prefix": [[["connect", 0]], [["send", 0, "gate"]]]}, 3, 0))
                          if not ctx.thorough else
                          (({"threads": 1, "worker_connections": 3, "keepalive": 2, "max_requests": 2, "menu_mode": "nopipe"}, 5, 1), ({"threads": 2, "worker_connections": 3, "keepalive": 2, "max_requests": 1, "menu_mode": "nopipe"}, 4, 1),
                           ({"threads": 2, "worker_connections": 3, "keepalive": 0, "max_requests": 3, "menu_mode": "nopipe"}, 4, 1),
                           ({"threads": 2, "worker_connections": 4, "keepalive": 2, "max_requests": 1, "menu_mode": "nopipe", "nclients": 3,
                             "prefix": [[["connect", 0]], [["send", 0, "gate"]]]}, 4, 1))):
        st = gt_explore(cfg, depth, P)
        for k in gt:
            gt[k] += st[k]
        for v in st["viols"]:
            viols.setdefault(v["fingerprint"], v)
    rcells = real_cells(ctx.thorough)
    order = list(rcells)
    random.Random(ctx.seed).shuffle(order)
    rres = par.pmap(real_cell, order, jobs=12)
    unconfirmed = []
    infra = 0
    for cell, v in zip(order, rres):
        if v is None:
            continue
        v2 = real_cell(cell)
        if v2 is None or v2[0] != v[0]:
            unconfirmed.append({"cell": list(cell), "first": v[0]})
            continue
        if v[0] == "infrastructure":
            infra += 1
            continue
        fp = "real:%s:%s" % (v[0], cell[0])
        viols.setdefault(fp, violation(fp, "worker=%s max_requests=%d jitter=%d load=%s bind=%s: %s" % (cell + (v[1],)), {"part": "real", "cell": list(cell)}))
    cov = {
        "evaluations": len(cells) + len(icells) + gt["execs"] + len(rcells),
        "distinct_nontrivial": sum(1 for c in cells if c[2]) + gt["states"] + len(rcells),
        "rule": "count: every (worker+config, max_requests 0..3, jitter setting 0..2, jitter answer, one-request-per-connection / one keep-alive connection) cell; "
                "interleave: two keep-alive connections on one worker; gthread: explicit-state search (C13's explorer) with the limit switched on; real: (class, max, jitter, "
                "load, bind) cells; non-trivial = a limit is configured",
        "samples": [{"count": ["gthread", 2, 2, 1, "keep-alive"]}, {"gthread": {"max_requests": 2, "history": [[["connect", 0], ["connect", 1]], [["send", 0, "ka"], ["send", 1, "ka"]]]}},
                    {"real": ["eventlet", 3, 0, "concurrent", "tcp"]}],
        "exhaustive": True,
        "count_cells": len(cells), "gthread_states": gt["states"], "gthread_transitions": gt["transitions"], "gthread_executions": gt["execs"],
        "real_cells": len(rcells), "real_unconfirmed": unconfirmed, "real_infrastructure_failures": infra,
    }
    return Result("exploration", cov, list(viols.values()),
                  ["the jitter is the answer of random.randint, owned by the harness in the in-process parts",
                   "real concurrent runs allow one in-flight request per client beyond the limit for the concurrent worker classes",
                   "a real-process anomaly counts only if it reproduces on an immediate serial re-run"])


def replay(case):
    if case["part"] == "real":
        v = real_cell(tuple(case["cell"]))
        return violation("real:%s:%s" % (v[0], case["cell"][0]), v[1], case) if v else None
    if case["part"] == "count":
        c = case["cell"]
        v = count_cell((c[0], c[1], c[2], c[3], c[4], c[5]))
        return violation("count:%s:%s" % (v[0], c[0]), v[1], case) if v else None
    if case["part"] == "interleave":
        v = interleave_cell((case["cell"][0], case["cell"][1]))
        return violation("interleave:%s:%s" % (v[0], case["cell"][0]), v[1], case) if v else None
    r = _gt_task((case["cfg"], c13.deser_hist(case["history"])))
    return violation("gthread:" + r["bad"][0][0], r["bad"][0][1], case) if r["bad"] else None
