"""C15 - the WSGI environ faithfully reflects the request that was received.

Decides by: all request targets built from <= N pieces of a 26-piece alphabet (origin, absolute,
'//', asterisk forms; escapes and raw high bytes) x methods x versions, and all field lists of
<= 3 items x value kinds, through the real worker handle(); oracle: an independent RFC 3875 /
PEP 3333 mapping of the raw request bytes."""
import itertools
import os
import random
import re

from vlib import bench, par
from vlib.runner import Result, violation

PIECES = [b"/", b"//", b"a", b".", b"..", b"%41", b"%2F", b"%2f", b"%00", b"%", b"%zz", b"%e9", b"\xe9", b"\xc3\xa9",
          b"+", b";p", b"?", b"?a=b", b"&", b"#f", b"*", b"http://h", b"http://h:80", b"HTTP://H", b"//h/p", b"/app",
          b"%25", b"41"]
HEXD = b"0123456789abcdefABCDEF"


def pct_decode(b):
    out = bytearray()
    i = 0
    while i < len(b):
        if b[i:i + 1] == b"%" and i + 2 < len(b) + 0 and len(b[i + 1:i + 3]) == 2 and b[i + 1] in HEXD and b[i + 2] in HEXD:
            out.append(int(b[i + 1:i + 3], 16))
            i += 3
        else:
            out.append(b[i])
            i += 1
    return bytes(out)


def ref_target(target):
    """Returns (path_bytes | None, query_bytes | None); None = don't-care."""
    if b"#" in target:
        return None, None
    if target.startswith(b"/"):
        path, _, query = target.partition(b"?")
        return path, query
    m = re.match(rb"(?i)https?://([^/?#]*)(.*)$", target)
    if m:
        rest = m.group(2)
        path, _, query = rest.partition(b"?")
        return path, query
    return None, None


FIELD_ITEMS = [("Host", "HTTP_HOST"), ("Content-Type", "CONTENT_TYPE"), ("X-A", "HTTP_X_A"), ("x-a", "HTTP_X_A"),
               ("Cookie", "HTTP_COOKIE"), ("Accept", "HTTP_ACCEPT"), ("X-B-C", "HTTP_X_B_C"), ("X_Under", None),
               ("Script-Name", "HTTP_SCRIPT_NAME"), ("Content_Type", None),
               # a forwarder header (the bench's peer 127.0.0.1 is in the default forwarded_allow_ips): it is let through
               # under its underscore name; that says nothing about any other underscore name in the same request
               ("PATH_INFO", "HTTP_PATH_INFO"),
               # handled specially by the server (interim response): it is a request field like the others for the application
               ("Expect", "HTTP_EXPECT")]
VALUE_KINDS = [b"100-continue", b"/app", b"v1", b"caf\xe9", b"  padded \t", b"", b"a,b", b"v2", b"\x0bvt\x0c", b"\xa0nb\x85", b"\x1fus\x1c"]


def field_lists(maxn):
    items = [(n, k, v) for (n, k) in FIELD_ITEMS for v in VALUE_KINDS]
    for n in range(0, maxn + 1):
        if n <= 2:
            yield from itertools.product(items, repeat=n)
        else:
            # three fields: restrict values to two kinds to keep the product finite and small
            small = [(n_, k, v) for (n_, k, v) in items if v in (b"v1", b"caf\xe9")]
            yield from itertools.product(small, repeat=n)


class App:
    def __init__(self):
        self.envs = []

    def __call__(self, environ, start_response):
        self.envs.append({k: v for k, v in environ.items() if isinstance(v, str)})
        start_response("200 OK", [("Content-Length", "0")])
        return []


def ref_environ(method, target, version, fields, script_name):
    """Expected environ entries; value None = don't-care, absent key = must be absent."""
    exp = {"REQUEST_METHOD": method.decode("latin-1"), "RAW_URI": target.decode("latin-1"),
           "SERVER_PROTOCOL": "HTTP/" + version.decode()}
    path, query = ref_target(target)
    if path is None:
        exp["PATH_INFO"] = exp["QUERY_STRING"] = exp["SCRIPT_NAME"] = None
    else:
        exp["QUERY_STRING"] = query.decode("latin-1")
        sn = script_name.encode()
        if sn and not path.startswith(sn):
            return None         # documented 500 (ConfigurationProblem)
        exp["SCRIPT_NAME"] = script_name
        exp["PATH_INFO"] = pct_decode(path[len(sn):]).decode("latin-1")
    http = {}
    for name, key, value in fields:
        if key is None:
            continue
        v = value.strip(b" \t").decode("latin-1")
        http.setdefault(key, []).append(v)
    for k, vs in http.items():
        exp[k] = vs
    return exp


def compare(exp, env, fields):
    for k, v in exp.items():
        if v is None:
            continue
        if k not in env:
            return "missing:" + _kclass(k), "%s missing (expected %r)" % (k, v)
        if isinstance(v, list):
            if k == "CONTENT_TYPE" and env[k] in v:
                continue        # a repeated singleton field: any one of the values sent is accepted
            if env[k] not in (",".join(v), ", ".join(v)):
                return "value:" + _kclass(k), "%s = %r, fields sent in order: %r" % (k, env[k], v)
        elif env[k] != v:
            return "value:" + _kclass(k), "%s = %r expected %r" % (k, env[k], v)
    allowed = set(exp) | {"HTTP_HOST"}
    for k in env:
        if (k.startswith("HTTP_") or k in ("CONTENT_TYPE", "CONTENT_LENGTH")) and k not in allowed:
            return "unexpected:" + _kclass(k), "%s = %r but no such field was sent (fields %r)" % (k, env[k], fields)
    if "CONTENT_TYPE" in exp and "HTTP_CONTENT_TYPE" in env:
        return "duplicated:CONTENT_TYPE", "CONTENT_TYPE also as HTTP_CONTENT_TYPE"
    return None


def _kclass(k):
    return k if not k.startswith("HTTP_") else "HTTP_*"


def targets(n):
    seen = set()
    for r in range(1, n + 1):
        for combo in itertools.product(PIECES, repeat=r):
            t = b"".join(combo)
            if t not in seen:
                seen.add(t)
                yield t


WORKERS = [("sync", {}), ("gthread", {"keepalive": 0}), ("async", {"keepalive": 0})]
NSH = 16


def build(method, target, version, fields, body=b""):
    head = method + b" " + target + b" HTTP/" + version + b"\r\n"
    for name, _k, value in fields:
        head += name.encode() + b": " + value + b"\r\n"
    if body:
        head += b"Content-Length: %d\r\n" % len(body)
    return head + b"\r\n" + body


def _task(t):
    mode, wi, shard, n, script_name = t
    kind, kw = WORKERS[wi]
    if script_name:
        os.environ["SCRIPT_NAME"] = script_name
    else:
        os.environ.pop("SCRIPT_NAME", None)
    app = App()
    b = bench.Bench(kind, kw, app)
    evals = accepted = dontcare = 0
    viols = {}

    def one(method, target, version, fields, body=b""):
        nonlocal evals, accepted, dontcare
        app.envs = []
        b.worker.alive = True
        o = b.connection(build(method, target, version, fields, body))
        evals += 1
        if o.exc:
            v = ("exception-escaped-handle", o.exc)
        elif not app.envs:
            return
        else:
            accepted += 1
            exp = ref_environ(method, target, version, fields, script_name)
            if exp is None:
                v = ("app-called-despite-script-name-mismatch", "SCRIPT_NAME=%r target=%r" % (script_name, target))
            else:
                if exp.get("PATH_INFO", "") is None:
                    dontcare += 1
                if body:
                    exp["CONTENT_LENGTH"] = str(len(body))
                v = compare(exp, app.envs[0], fields)
        if v and v[0] not in viols:
            viols[v[0]] = violation(v[0], "worker=%s SCRIPT_NAME=%r request=%r: %s" % (
                kind, script_name, build(method, target, version, fields, body)[:160], v[1]),
                {"worker": wi, "script_name": script_name, "method": method.decode(), "target": target.decode("latin-1"),
                 "version": version.decode(), "fields": [[n_, k, v_.decode("latin-1")] for n_, k, v_ in fields], "body": body.decode()})

    try:
        if mode == "targets":
            for idx, tg in enumerate(targets(n)):
                if idx % NSH != shard:
                    continue
                one(b"GET", tg, b"1.1", (("Host", "HTTP_HOST", b"h"),))
                if idx % 7 == 0:
                    one(b"POST", tg, b"1.0", (), b"xy")
                    one(b"M-SEARCH", tg, b"1.1", ())
                    one(b"get", tg, b"1.1", ())
        else:
            for idx, fl in enumerate(field_lists(n)):
                if idx % NSH != shard:
                    continue
                one(b"GET", b"/app/p%41?q=1", b"1.1", fl)
                if idx % 5 == 0:
                    one(b"POST", b"/app/x", b"1.0", fl, b"abc")
    finally:
        b.close()
    return {"evals": evals, "accepted": accepted, "dontcare": dontcare, "viols": list(viols.values()), "key": t}


def run(ctx):
    nt = 4 if ctx.thorough else 3
    tasks = []
    for sn in ("", "/app"):
        for wi in range(len(WORKERS)):
            n = nt if (wi == 0 or not ctx.thorough) else 3
            for s in range(NSH):
                tasks.append(("targets", wi, s, n, sn))
                tasks.append(("fields", wi, s, 3 if ctx.thorough else 2, sn))
    random.Random(ctx.seed).shuffle(tasks)
    res = par.pmap(_task, tasks)
    res.sort(key=lambda r: r["key"])
    viols = [v for r in res for v in r["viols"]]
    evals = sum(r["evals"] for r in res)
    acc = sum(r["accepted"] for r in res)
    cov = {
        "evaluations": evals,
        "distinct_nontrivial": acc,
        "rule": "targets = all concatenations of <=%d pieces of a %d-piece alphabet (deduplicated) x methods x versions; field lists = all ordered lists "
                "of <=k items from %d (name, value) pairs; x 3 workers x SCRIPT_NAME unset//app; non-trivial = requests the parser accepted "
                "(the application was called and its environ compared)" % (nt, len(PIECES), len(FIELD_ITEMS) * len(VALUE_KINDS)),
        "samples": ["GET /%41\\xe9?a=b HTTP/1.1", "GET http://h:80/app%2F.. HTTP/1.1", "POST //h/p%zz HTTP/1.0",
                    "GET /app/p%41?q=1 + [X-A: v1, x-a: caf\\xe9, Cookie: a,b]"],
        "exhaustive": True,
        "accepted_requests_compared": acc,
        "path_query_dont_care": sum(r["dontcare"] for r in res),
        "rejected_by_parser": evals - acc,
        "distinct_targets": sum(1 for _ in targets(nt)),
    }
    return Result("exploration", cov, viols,
                  ["targets with '#', authority-form, asterisk-form and relative forms are don't-care for PATH_INFO/QUERY_STRING (RAW_URI still exact)",
                   "repeated fields may be joined with ',' or ', '",
                   "a configured SCRIPT_NAME that is not a prefix of the path is answered 500 by design"])


def replay(case):
    kind, kw = WORKERS[case["worker"]]
    sn = case["script_name"]
    if sn:
        os.environ["SCRIPT_NAME"] = sn
    else:
        os.environ.pop("SCRIPT_NAME", None)
    app = App()
    b = bench.Bench(kind, kw, app)
    try:
        fields = tuple((n, k, v.encode("latin-1")) for n, k, v in case["fields"])
        method, target, version = case["method"].encode(), case["target"].encode("latin-1"), case["version"].encode()
        body = case["body"].encode()
        o = b.connection(build(method, target, version, fields, body))
        if not app.envs:
            return None
        exp = ref_environ(method, target, version, fields, sn)
        if exp is None:
            return violation("app-called-despite-script-name-mismatch", "", case)
        if body:
            exp["CONTENT_LENGTH"] = str(len(body))
        v = compare(exp, app.envs[0], fields)
        if v:
            return violation(v[0], v[1], case)
    finally:
        b.close()
        os.environ.pop("SCRIPT_NAME", None)
    return None
