"""C13 - threaded worker accounts for every connection and never stops serving.

Decides by: the REAL ThreadWorker (run / accept / on_client_socket_readable / enqueue_req / handle /
handle_request / finish_request / murder_keepalived) under the controlled scheduler (vlib.gsched,
vlib.gtbench).  Two nested enumerations: (i) breadth-first over environment histories delivered at
quiescence (connect, request keep-alive/close/gated/half, rest, client close, gate release, tick,
pairs of simultaneous events) with canonical-state deduplication; (ii) inside every transition all
interleavings of main loop and pool threads with at most P deviations from the default schedule (a preemption, or a non-default pick when the running flow blocks) at the scheduling points.
Invariants at every quiescent state; bounded liveness by a drain continuation from every state."""
import random

from vlib import gsched, gtbench, par
from vlib.runner import Result, violation


_BOOT = {}


def wcfg(cfg):
    return {k: v for k, v in cfg.items() if k != "prefix"}


def boot_len(cfg):
    """Number of choice points before the first quiescence (start-up is always run on the default schedule)."""
    key = tuple(sorted(wcfg(cfg).items()))
    if key not in _BOOT:
        w = gtbench.World(choices=(), **wcfg(cfg))
        w.s.env = lambda sched: False
        try:
            w.s.run()
        finally:
            w.restore()
        _BOOT[key] = len(w.s.taken)
    return _BOOT[key]


def run_history(cfg, history, extra_choices=None, drain=None, max_points=1500, final_check=None):
    """history: list of (events tuple, choices list for the segment that follows).  The last segment's
    choices may be partial (the rest defaults).  drain: list of event tuples appended afterwards (default schedule).
    Returns dict(world, canon, taken_by_segment, error, anomalies)."""
    flat = [0] * boot_len(cfg)
    for evs, ch in history:
        flat += list(ch)
    w = gtbench.World(choices=flat, max_points=max_points, **wcfg(cfg))
    s = w.s
    script = [evs for evs, _ch in history] + list(drain or [])
    nq = [0]
    checks = []
    out = {"world": w, "error": None}

    def env(sched):
        i = nq[0]
        # quiescence number i: boot finished (i == 0) or the segment after event i-1 finished
        if i == len(history):
            out["canon"] = w.canon()
            out["inv"] = invariants(w, cfg)
        if i > len(history) and drain_check is not None:
            checks.append(drain_check(w, i - len(history) - 1))
        if i >= len(script):
            return False
        nq[0] += 1
        for ev in script[i]:
            w.apply(tuple(ev))
        return True

    drain_check = DRAIN_CHECK if drain else None
    s.env = env
    try:
        s.run()
    except gsched.Livelock as e:
        out["error"] = ("livelock", str(e))
    except gsched.Deadlock as e:
        out["error"] = ("deadlock", str(e))
    except AssertionError as e:
        out["error"] = ("replay", str(e))
    finally:
        if final_check is not None:
            out["final"] = final_check(w)       # before the parked flows are torn down
        w.restore()
    # split choices by segment
    marks = s.segment_marks + [len(s.taken)]
    segs = []
    for a, b in zip(marks, marks[1:]):
        segs.append(s.taken[a:b])
    out["segments"] = segs          # segs[i] = choices taken after quiescence i
    out["boot"] = s.taken[:marks[0]] if marks else s.taken
    out["taken"] = s.taken
    out["checks"] = [c for c in checks if c]
    out["points"] = s.points
    out["anomalies"] = list(w.anomalies)
    if "canon" not in out:
        out["canon"] = None
        out["inv"] = []
    for t in s.tasks:
        if t.exc is not None and out["error"] is None:
            out["error"] = ("task-exception", "%s: %s: %s" % (t.name, type(t.exc).__name__, t.exc))
    if w.run_exc is not None and out["error"] is None:
        out["error"] = ("run-raised", "%s: %s" % (type(w.run_exc).__name__, w.run_exc))
    return out


def invariants(w, cfg):
    """Evaluated at a quiescent state.  Returns list of (fingerprint, text)."""
    bad = []
    wk = w.worker
    open_socks = w.open_server_socks()
    if wk.nr_conns != len(open_socks):
        bad.append(("accounting:nr_conns", "nr_conns=%d but %d accepted connections are open (%s)" % (
            wk.nr_conns, len(open_socks), [c.name for c in open_socks])))
    if wk.nr_conns > cfg["worker_connections"]:
        bad.append(("capacity-exceeded", "nr_conns=%d > worker_connections=%d" % (wk.nr_conns, cfg["worker_connections"])))
    reg = wk.poller.map
    keep = list(wk._keep.items)
    queued = [args[0] for (_f, _fn, args) in wk.tpool.queue]
    for c in open_socks:
        places = []
        if c in reg:
            places.append("poller")
        if c.in_job is not None or any(q.sock is c for q in queued):
            places.append("job")
        in_keep = any(t.sock is c for t in keep)
        if len(places) != 1 and wk.alive:
            bad.append(("connection-in-%d-places" % len(places), "open connection %s is in %r (must be exactly one of poller / job); _keep=%s" % (c.name, places, in_keep)))
        if in_keep and c not in reg and "job" not in places:
            bad.append(("keepalive-not-polled", "connection %s is in _keep but not registered with the poller: its next request will never be seen" % c.name))
        if in_keep:
            t = [t for t in keep if t.sock is c][0]
            late = [m for m in w.murder_passes if t.timeout is not None and m >= t.timeout]
            if t.timeout is not None and w.s.now - t.timeout > 1.0 + 0.1 and not late and wk.alive:
                # the main loop went round at least once more (it never blocks longer than a second) without reaping at all
                bad.append(("keepalive-not-expired", "idle connection %s is still open %.2f s after its keep-alive deadline and the reaper has not run since" % (
                    c.name, w.s.now - t.timeout)))
            elif late and len(w.murder_passes) > w.murder_passes.index(late[0]):
                # a complete reaper pass started after the deadline and left it open
                bad.append(("keepalive-not-expired", "idle connection %s is still open although the keep-alive reaper ran at t=%.3f, after its deadline %.3f" % (
                    c.name, late[0], t.timeout)))
    budget = max(cfg["worker_connections"] - cfg["threads"], 0)
    if cfg["keepalive"] and budget == 0 and len(keep) > 0 and wk.alive:
        # with worker_connections == threads every slot is needed for handling: no connection is parked idle, otherwise idle
        # clients alone take the worker to its connection limit (for budgets > 0 the limit is soft: two requests finishing
        # together may both be kept - observed on the unchanged tree and not judged)
        bad.append(("keepalive-beyond-budget", "%d idle kept-alive connection(s), worker_connections=%d threads=%d leave room for %d" % (
            len(keep), cfg["worker_connections"], cfg["threads"], budget)))
    for c in w.accepted:
        if c.closed and c in reg:
            bad.append(("closed-socket-registered", "closed connection %s is still registered with the poller" % c.name))
        if c.closed > 1:
            pass   # closing twice is harmless on a real socket object
    for (name, at, by, in_murder) in w.closes:
        if in_murder:
            # closed by the keep-alive reaper: only after the deadline
            c = [x for x in w.accepted if x.name == name][0]
            ka = cfg["keepalive"]
            if getattr(c, "last_keep_deadline", None) is not None and at < c.last_keep_deadline - 1e-6:
                bad.append(("keepalive-closed-early", "connection %s closed by the reaper %.2f s before its deadline" % (name, c.last_keep_deadline - at)))
    for kind, text in w.anomalies:
        bad.append(("anomaly:" + kind, text))
    if w.spins:
        bad.append(("busy-loop-at-capacity", "nr_conns == worker_connections == %d and nothing in flight: the main loop called futures.wait() on nothing %d x 3 times in a row "
                    "without ever polling the selector (busy loop)" % (cfg["worker_connections"], w.spins)))
    return bad


def drain_events(cfg):
    ka = cfg["keepalive"]
    return ([[("tick",)]] * 3 + [[("release",)]] + [[("tick",)]] * 2 + [[("close", 0), ("close", 1), ("close", 2)]] + [[("tick",)]] * (ka + 3) +
            [[("term",)]] + [[("tick",)]] * 3)


def DRAIN_CHECK(w, step):
    """Called at each quiescence of the drain continuation."""
    cfg_ka = w.cfg.keepalive
    wk = w.worker
    # after the first three ticks: every connection with a complete unread request was dispatched if a thread was free
    if step == 3:
        free = wk.tpool.threads - wk.tpool.busy
        for k, st in w.clients.items():
            c = st["sock"]
            if c.accepted and not c.closed and b"\r\n\r\n" in c.rbuf and free > 0 and wk.alive:
                return ("request-not-served" + ("-at-capacity" if wk.nr_conns >= w.cfg.worker_connections else ""), "connection %s holds a complete request, a handler thread is free, but it was not dispatched within 3 loop periods "
                        "(nr_conns=%d, worker_connections=%d, polls so far %d)" % (c.name, wk.nr_conns, w.cfg.worker_connections, w.polls))
            if (c.accepted and not c.closed and not st.get("closed") and not st["half"] and st["requests"] > w.answered(k) and free > 0 and wk.alive
                    and c.in_job is None and st.get("pipelined") and not c.rbuf):
                return ("pipelined-request-not-served", "client %d sent two requests in one segment on %s; one was answered, the other sits in the parser's buffer and is not "
                        "dispatched although a handler thread is free (the connection went back to the poller, which only reports NEW bytes)" % (k, c.name))
            if not c.accepted and wk.alive and wk.nr_conns < w.cfg.worker_connections and c in w.listener.pending:
                return ("connection-not-accepted", "a connection waits in the backlog, capacity is free, but it was not accepted within 3 loop periods")
    n_close = 3 + 1 + 2 + 1 + (cfg_ka + 3)
    if step == n_close:
        left = [c.name for c in w.open_server_socks()]
        if left and wk.alive:
            return ("connections-left-open", "all clients are gone for %d s but %r are still open (nr_conns=%d)" % (cfg_ka + 3, left, wk.nr_conns))
        if not left and wk.nr_conns != 0:
            return ("accounting:nr_conns-after-drain", "every connection is closed but nr_conns=%d" % wk.nr_conns)
    if step == n_close + 1 + 3:
        if not w.run_returned and w.run_exc is None:
            return ("run-did-not-return-after-term", "3 s after TERM with no connection left, run() has not returned")
    return None


def events_menu(w, batches=True):
    base = w.menu()
    evs = [(e,) for e in base] + [(("tick",),)]
    evs = [tuple(x) if isinstance(x[0], tuple) else (x,) for x in evs]
    out = [tuple(e) for e in evs]
    if batches:
        for a in base:
            for b in base:
                if a >= b:
                    continue
                if a[0] == "release" or b[0] == "release" or (a[0] in ("send", "connect", "rest") and b[0] in ("send", "connect", "rest", "close") and a[1] != b[1]):
                    out.append((a, b))
    return out


def _expand_task(t):
    """Expand one frontier node: all events x all schedules (<= P preemptions) of the new segment."""
    cfg, hist, P, batches = t
    base = run_history(cfg, hist)
    if base["error"] or base["canon"] is None:
        return {"hist": hist, "succ": [], "execs": 1}
    # menu needs a live world at the final quiescence: rebuild and stop there
    menu = _menu_for(cfg, hist, batches)
    succ = {}
    execs = 1
    viols = []
    fixed = [(evs, ch) for evs, ch in hist]
    for evs in menu:
        stack = [[]]
        while stack:
            prefix = stack.pop()
            h2 = fixed + [(evs, prefix)]
            r = run_history(cfg, h2)
            execs += 1
            seg = r["segments"][len(hist)] if len(r["segments"]) > len(hist) else []
            full = [c[1] for c in seg]
            bad = list(r["inv"])
            if r["error"]:
                bad.append(("%s" % r["error"][0], r["error"][1]))
            for fp, text in bad:
                viols.append((fp, text, evs, full))
            if not r["error"] and r["canon"] is not None:
                key = r["canon"]
                if key not in succ:
                    succ[key] = (evs, full)
            # branch: alternatives at later points of this segment
            cost = 0
            for i in range(len(seg)):
                n, idx, pre, last_en = seg[i]
                if i >= len(prefix):
                    for alt in range(n):
                        if alt == idx:
                            continue
                        # deviation bounding: every non-default choice costs one (a preemption, or picking another than
                        # the first flow when the running one blocked) - free choices at blocking points explode otherwise
                        c2 = cost + 1
                        if c2 <= P:
                            stack.append(full[:i] + [alt])
                cost += 1 if idx != 0 else 0
    return {"hist": hist, "succ": [(k, v[0], v[1]) for k, v in succ.items()], "execs": execs, "viols": viols}


def _menu_for(cfg, hist, batches):
    holder = {}
    flat = [0] * boot_len(cfg)
    for evs, ch in hist:
        flat += list(ch)
    w = gtbench.World(choices=flat, **wcfg(cfg))
    nq = [0]

    def env(sched):
        i = nq[0]
        if i == len(hist):
            holder["menu"] = events_menu(w, batches)
            return False
        nq[0] += 1
        for ev in hist[i][0]:
            w.apply(tuple(ev))
        return True
    w.s.env = env
    try:
        w.s.run()
    except Exception:
        holder.setdefault("menu", [])
    finally:
        w.restore()
    return holder.get("menu", [])


def _drain_task(t):
    cfg, hist = t
    r = run_history(cfg, hist, drain=drain_events(cfg), max_points=6000)
    bad = list(r["checks"])
    if r["error"]:
        bad.append(("drain:%s" % r["error"][0], r["error"][1]))
    for kind, text in r["anomalies"]:
        bad.append(("anomaly:" + kind, text))
    return {"hist": hist, "bad": bad}


def ser_hist(hist):
    return [[[list(e) for e in evs], list(ch)] for evs, ch in hist]


def deser_hist(h):
    return [(tuple(tuple(e) for e in evs), list(ch)) for evs, ch in h]


def classify(fp, text, cfg):
    """Fingerprint refinement: the capacity wedge shows up under several verdicts."""
    if fp in ("livelock", "drain:livelock"):
        return "busy-loop-at-capacity" if cfg["worker_connections"] <= 3 and "scheduling points" in text else fp
    return fp


def explore(cfg, depth, P, batches):
    seen = {}
    start = [(tuple(tuple(e) for e in evs), []) for evs in cfg.get("prefix", [])]
    # the prefix is replayed on the default schedule; its segments' choice lists are filled in from that run
    r0 = run_history(cfg, start)
    start = [(evs, [c[1] for c in r0["segments"][i]]) for i, (evs, _ch) in enumerate(start)]
    seen[r0["canon"]] = start
    frontier = [start]
    states, transitions, execs = 1, 0, 1
    viols = {}
    samples = []
    all_states = [start]

    def note(fp, text, hist):
        if fp not in viols:
            viols[fp] = violation(fp, "threads=%(threads)d worker_connections=%(worker_connections)d keepalive=%(keepalive)d" % cfg +
                                  " history=%r: %s" % ([list(map(list, evs)) for evs, _ in hist], text),
                                  {"cfg": cfg, "history": ser_hist(hist)})

    for d in range(depth):
        res = par.pmap(_expand_task, [(cfg, h, P, batches) for h in frontier], chunksize=1)
        nxt = []
        for r in res:
            execs += r["execs"]
            for fp, text, evs, ch in r.get("viols", []):
                note(classify(fp, text, cfg), text, r["hist"] + [(evs, ch)])
            for key, evs, ch in r["succ"]:
                transitions += 1
                if key not in seen:
                    h2 = r["hist"] + [(evs, ch)]
                    seen[key] = h2
                    states += 1
                    nxt.append(h2)
                    all_states.append(h2)
                    if len(samples) < 3 and d >= 1:
                        samples.append([list(map(list, evs)) for evs, _ in h2])
        frontier = nxt
        if not frontier:
            break
    dres = par.pmap(_drain_task, [(cfg, h) for h in all_states], chunksize=4)
    for r in dres:
        execs += 1
        for fp, text in r["bad"]:
            note(classify(fp, text, cfg), text, r["hist"])
    return {"states": states, "transitions": transitions, "execs": execs, "viols": list(viols.values()), "samples": samples, "histories": all_states}


# ---------------------------------------------------------------- conformance with a real gthread worker ----

def _conf_task(t):
    """Replays one explored history (default schedule) against a real gthread server; compares, per client, the number
    of complete responses and whether the server closed the connection."""
    import socket
    import time
    from vlib import realproc as rp
    cfg, hist = t
    r = run_history(cfg, hist)
    if r["error"] or r["canon"] is None:
        return None
    w = r["world"]
    want = {}
    for k, st in w.clients.items():
        c = st["sock"]
        want[k] = (c.wbuf.count(b"HTTP/1.1 200 OK"), bool(c.closed))
    has_tick = any(e[0] == "tick" for evs, _ in hist for e in evs)
    s = rp.Server(worker_class="gthread", workers=1, bind="tcp", graceful_timeout=2, timeout=30, keepalive=cfg["keepalive"], threads=cfg["threads"],
                  extra={"worker_connections": cfg["worker_connections"]})
    conns = {}
    halves = {}
    nreq = {}
    try:
        if not s.start():
            return ("infrastructure", "server did not start")
        time.sleep(0.3)
        for evs, _ch in hist:
            for e in evs:
                if e[0] == "connect":
                    conns[e[1]] = s.connect()
                    nreq[e[1]] = 0
                elif e[0] == "send":
                    k, kind = e[1], e[2]
                    path = {"ka": "/plain", "close": "/plain", "gate": "/gate/g%d" % k, "half": "/plain", "pipe2": "/plain"}[kind]
                    req = ("GET %s HTTP/1.1\r\nHost: h\r\n%s\r\n" % (path, "Connection: close\r\n" if kind == "close" else "")).encode()
                    if kind == "half":
                        conns[k].sendall(req[:10])
                        halves[k] = req[10:]
                    elif kind == "pipe2":
                        conns[k].sendall(req + req)
                    else:
                        conns[k].sendall(req)
                elif e[0] == "rest":
                    conns[e[1]].sendall(halves.pop(e[1]))
                elif e[0] == "close":
                    if e[1] in conns:
                        conns[e[1]].shutdown(socket.SHUT_WR)
                elif e[0] == "release":
                    for name in list(s.gate.held):
                        s.gate.release(name)
                elif e[0] == "tick":
                    time.sleep(1.05)
                elif e[0] == "steal":
                    pass
            s.gate.poll(0.25)
        time.sleep(0.3)
        got = {}
        for k, c in conns.items():
            c.setblocking(False)
            data = b""
            closed = False
            try:
                while True:
                    d = c.recv(65536)
                    if not d:
                        closed = True
                        break
                    data += d
            except (BlockingIOError, OSError):
                pass
            got[k] = (data.count(b"HTTP/1.1 200 OK"), closed)
        for k in want:
            if k not in got:
                continue
            if got[k][0] != want[k][0] or (not has_tick and got[k][1] != want[k][1]):
                return ("mismatch", "history %r: client %d real (responses, closed)=%r, simulated %r" % ([list(map(list, evs)) for evs, _ in hist], k, got[k], want[k]))
        return ("ok", "")
    finally:
        for c in conns.values():
            try:
                c.close()
            except OSError:
                pass
        s.cleanup()


def conformance(histories, n):
    cfg = {"threads": 2, "worker_connections": 3, "keepalive": 2}
    usable = [h for h in histories if h and all(e[0] != "steal" for evs, _ in h for e in evs) and all(not ch or not any(ch) for _evs, ch in h)]
    step = max(1, len(usable) // n)
    chosen = usable[::step][:n]
    res = par.pmap(_conf_task, [(cfg, h) for h in chosen], jobs=10)
    ok = sum(1 for r in res if r and r[0] == "ok")
    confirmed = []
    for h, r in zip(chosen, res):
        if r and r[0] == "mismatch":
            r2 = _conf_task((cfg, h))
            if r2 and r2[0] == "mismatch":
                confirmed.append(r2[1])
            else:
                ok += 1
    return ok, confirmed


CONFIGS_QUICK = [
    ({"threads": 1, "worker_connections": 3, "keepalive": 2}, 4, 1),
    ({"threads": 2, "worker_connections": 3, "keepalive": 2}, 4, 1),
    ({"threads": 1, "worker_connections": 3, "keepalive": 0}, 4, 1),
    ({"threads": 1, "worker_connections": 3, "keepalive": 2}, 2, 2),
    # keep-alive expiry with staggered deadlines: both clients connected, then only requests and ticks
    ({"threads": 1, "worker_connections": 3, "keepalive": 3, "menu_mode": "keepalive", "prefix": [[["connect", 0], ["connect", 1]]]}, 7, 0),
    # saturated by idle keep-alive connections: they must still be reaped when their time is up
    ({"threads": 1, "worker_connections": 3, "keepalive": 1, "menu_mode": "keepalive", "nclients": 3, "prefix": [[["connect", 0], ["connect", 1]]]}, 5, 0),
    # a request that takes longer than the keep-alive time: the idle period starts when it is finished, not when it was dispatched
    ({"threads": 1, "worker_connections": 3, "keepalive": 2, "menu_mode": "nopipe", "nclients": 1, "prefix": [[["connect", 0]], [["send", 0, "gate"]], [["tick"]]]}, 4, 0),
    # saturated configurations (connections == worker_connections is reachable): shallow, they document the capacity wedge
    ({"threads": 1, "worker_connections": 1, "keepalive": 2}, 2, 1),
    ({"threads": 1, "worker_connections": 2, "keepalive": 2}, 2, 1),
    ({"threads": 2, "worker_connections": 2, "keepalive": 2, "menu_mode": "nopipe"}, 3, 0),
]
CONFIGS_THOROUGH = [
    ({"threads": 1, "worker_connections": 3, "keepalive": 2}, 6, 1),
    ({"threads": 2, "worker_connections": 3, "keepalive": 2}, 5, 1),
    ({"threads": 1, "worker_connections": 3, "keepalive": 0}, 5, 1),
    ({"threads": 1, "worker_connections": 3, "keepalive": 2}, 4, 2),
    ({"threads": 2, "worker_connections": 3, "keepalive": 2}, 4, 2),
    ({"threads": 2, "worker_connections": 4, "keepalive": 2}, 4, 1),
    ({"threads": 1, "worker_connections": 3, "keepalive": 3, "menu_mode": "keepalive", "prefix": [[["connect", 0], ["connect", 1]]]}, 8, 1),
    ({"threads": 2, "worker_connections": 3, "keepalive": 4, "menu_mode": "keepalive", "prefix": [[["connect", 0], ["connect", 1]]]}, 8, 0),
    ({"threads": 1, "worker_connections": 1, "keepalive": 2}, 3, 1),
    ({"threads": 1, "worker_connections": 2, "keepalive": 2}, 3, 1),
    ({"threads": 2, "worker_connections": 2, "keepalive": 2}, 3, 1),
    ({"threads": 1, "worker_connections": 3, "keepalive": 2, "menu_mode": "nopipe", "nclients": 1, "prefix": [[["connect", 0]], [["send", 0, "gate"]], [["tick"]]]}, 6, 1),
    ({"threads": 2, "worker_connections": 3, "keepalive": 2, "menu_mode": "nopipe", "nclients": 2, "prefix": [[["connect", 0]], [["send", 0, "gate"]]]}, 5, 0),
]


def run(ctx):
    tot = {"states": 0, "transitions": 0, "execs": 0}
    viols = []
    samples = []
    per = {}
    conf_hist = None
    for cfg, depth, P in (CONFIGS_THOROUGH if ctx.thorough else CONFIGS_QUICK):
        st = explore(cfg, depth, P, batches=True)
        if cfg == {"threads": 2, "worker_connections": 3, "keepalive": 2} and conf_hist is None:
            conf_hist = st["histories"]
        for k in tot:
            tot[k] += st[k]
        viols += st["viols"]
        samples += st["samples"][:1]
        per["t%(threads)d/wc%(worker_connections)d/ka%(keepalive)d" % cfg + ("/" + cfg["menu_mode"] if "menu_mode" in cfg else "") + "/P%d" % P] = {"depth": depth, "preemptions": P, "states": st["states"], "transitions": st["transitions"], "executions": st["execs"]}
    nconf, mism = conformance(conf_hist or [], 60 if ctx.thorough else 14)
    if mism and not viols:
        raise AssertionError("simulated selector/sockets disagree with a real gthread server: %r" % mism[:2])
    cov = {
        "states": tot["states"], "transitions": tot["transitions"], "traces_validated_against_impl": nconf,
        "samples": samples or [[["connect", 0]]],
        "executions": tot["execs"],
        "evaluations": tot["execs"], "distinct_nontrivial": tot["states"],
        "rule": "state = canonical form of the worker at quiescence (nr_conns, alive, per connection: closed/registered/in _keep/in a job/unread bytes/peer closed/"
                "time to keep-alive deadline/responses so far, per flow: where it is parked, futures, backlog, gates, main-loop deadline, client states); transition = "
                "one environment event or simultaneous pair at quiescence, explored under every schedule with <= P preemptions; every state additionally gets a drain continuation",
        "per_configuration": per,
        "exhaustive": True,
        "invariants": ["nr_conns == open accepted connections", "nr_conns <= worker_connections", "every open connection is in exactly one of poller / job",
                       "a connection in _keep is registered", "idle keep-alive connections closed after and not before the deadline", "no close while a request is handled on the socket",
                       "no use after close / double register", "drain: complete requests are dispatched while a thread is free; all closed and nr_conns == 0 after clients leave; run() returns after TERM"],
    }
    return Result("model_checking", cov, viols,
                  ["scheduling points are the operations on shared state (lock, selector, sockets, executor/futures, _keep and futures containers); code between two points is atomic "
                   "(in particular `nr_conns += 1` is one step, as it is on the CPython 3.12 interpreter of this sandbox)",
                   "the environment moves only when every flow is blocked; up to two events may arrive together",
                   "traces_validated_against_impl: explored histories (default schedule) of the threads=2 / worker_connections=3 / keepalive=2 configuration replayed against a real "
                   "gthread server with real sockets; compared per client: complete responses received, and (for histories without ticks) whether the server closed the connection"])


def replay(case):
    cfg = case["cfg"]
    hist = deser_hist(case["history"])
    r = run_history(cfg, hist)
    bad = list(r["inv"])
    if r["error"]:
        bad.append((classify(r["error"][0], r["error"][1], cfg), r["error"][1]))
    if not bad:
        d = _drain_task((cfg, hist))
        bad = [(classify(fp, text, cfg), text) for fp, text in d["bad"]]
    if bad:
        return violation(bad[0][0], bad[0][1], case)
    return None
