"""C10 - reload (HUP) replaces every worker without refusing or cutting a request.

(a) simulated kernel, real Arbiter: HUP (once / twice / with a changed worker count / while workers
    die) at quiescence and - as a mid-flight event - at every delivery point of the running
    reload; old workers exit at once / late / after swallowing the first TERM.  Oracle: with an
    unchanged bind address no listener is ever closed and create_sockets is not called again; TERM
    reaches old workers only after the new generation was forked; eventually tracked == live ==
    exactly the newly configured number, all forked after the HUP; the pid file keeps naming the master.
(c) real processes: HUP x connection phase x worker class (gated request completed by its original
    pid, background connector never refused/reset, afterwards only new pids with the new marker
    in the new number)."""
import os
import random
import signal
import threading
import time
from concurrent.futures import ThreadPoolExecutor

from vlib import par, realproc as rp, simkernel as sk
from vlib.runner import Result, violation
from props import c03

PIDFILE = "/run/app.pid"


def sim_cfgs(params):
    bind = {"tcp": ["127.0.0.1:8000"], "localhost": ["localhost:8000"], "unix": ["unix:/run/app.sock"]}[params["bind"]]
    c0 = sk.make_cfg(workers=params["workers"], timeout=params["timeout"], graceful_timeout=2, pidfile=PIDFILE, bind=bind)
    c1 = sk.make_cfg(workers=params["hup_workers"], timeout=params["timeout"], graceful_timeout=2, pidfile=PIDFILE, bind=bind)
    return [c0, c1, c1, c1, c1]


def sim_execute(params, script, inject=None):
    k = sk.Kernel(script=script, inject=inject, term=params["term"], settle=5, late_delay=1.5, pid_order=params.get("pids", "ascending"))
    k.fs.dirs.add("/run")
    o = sk.run_arbiter(sim_cfgs(params), k)
    return k, o


def sim_judge(params, k, o, label=None):
    at = ("@" + label) if label else ""
    bad = []
    if o.end == "exception":
        return [("escaped-run:%s%s" % (o.exc.split(":")[0], at), "exception left Arbiter.run(): %s" % o.exc)]
    boot = [t for t in k.trace if t[0] == "reaped" and t[2] in c03.BOOT]
    if o.end == "exit":
        if boot and o.code in (3, 4):
            return []
        return [("master-exited" + at, "the master exited with %r during a reload history" % (o.code,))]
    if any(t[0] == "listener-close" for t in k.trace):
        bad.append(("listener-closed-on-reload" + at, "a listening socket was closed although the bind address did not change"))
    if k.create_socket_calls != 1:
        bad.append(("sockets-recreated-on-reload" + at, "create_sockets called %d times" % k.create_socket_calls))
    r = c03.retire_order_violation(k)
    if r:
        bad.append(("retire:not-oldest-first" + at, r))
    hups = [i for i, t in enumerate(k.trace) if t[0] == "log" and "Hang up" in t[2]]
    if hups:
        last = hups[-1]
        pre = {t[1] for t in k.trace[:last] if t[0] == "fork"}
        post_forks = [i for i, t in enumerate(k.trace) if i > last and t[0] == "fork"]
        # TERM to a pre-HUP worker only after the new generation exists
        arb = o.arbiter
        want = arb.cfg.workers
        for i, t in enumerate(k.trace):
            if i > last and t[0] == "kill" and t[2] == signal.SIGTERM and t[1] in pre:
                nforked = sum(1 for j in post_forks if j < i)
                if nforked < want:
                    bad.append(("old-worker-stopped-before-new-forked" + at, "TERM to old worker %d after only %d of %d new workers were forked" % (t[1], nforked, want)))
                break
        tracked = set(dict.keys(arb.WORKERS))
        live = {p.pid for p in k.children() if p.alive and p.kind == "worker"}
        if boot:
            return bad
        old_alive = sorted(live & pre)
        fork_race = label in ("fork.return", "WORKERS.setitem")
        if old_alive:
            # manage_workers repeats TERM as long as the pool is over its target.  A pre-reload worker can only stay if the
            # count matches again - which happens when its TERM was lost in its boot window and then the target was raised
            # (TTIN) or a new worker died (a recorded finding) - or if the surplus is not retired at all (a violation).
            surplus = len(tracked) > arb.num_workers
            if not surplus:
                bad.append(("old-generation-survives:count-matches", "workers %r forked before the last HUP are still alive after settling: the pool size equals the "
                            "target (a TERM was lost in a boot window, or a new worker died at once), so the old worker is never asked to stop" % old_alive))
            else:
                bad.append(("old-generation-survives" + at, "workers %r forked before the last HUP are still alive after settling (tracked %d, target %d)" % (
                    old_alive, len(tracked), arb.num_workers)))
        if tracked != live:
            # (a worker dying between fork() and the WORKERS store is C03's recorded fork-bookkeeping race, seen from here)
            bad.append((("fork-bookkeeping-race" if fork_race else "tracked-differs-from-live") + at, "WORKERS=%r live=%r" % (sorted(tracked), sorted(live))))
        ref = c03.reference_num_workers(params, k.trace)
        if len(live - pre) != ref and not old_alive and not (fork_race and tracked != live):
            bad.append(("new-generation-size" + at, "%d workers of the new generation, configured %d" % (len(live - pre), ref)))
        if arb.timeout != arb.cfg.timeout:
            bad.append(("stale-config" + at, "arbiter.timeout=%r cfg=%r" % (arb.timeout, arb.cfg.timeout)))
    content = k.fs.snapshot().get(PIDFILE)
    if content != b"%d\n" % k.master_pid:
        bad.append(("pidfile-not-naming-master" + at, "pid file content %r while the master (pid %d) runs" % (content, k.master_pid)))
    return bad


HUP_SCRIPTS = [
    [("sig", "HUP")],
    [("sig", "HUP"), ("sig", "HUP")],
    [(("sig", "HUP"), ("exit", 0, 9))],
    [("sig", "TTIN"), ("sig", "HUP")],
    [("sig", "HUP"), ("sig", "TTOU")],
    [("exit", 0, 9), ("sig", "HUP")],
    [("sig", "HUP"), ("exit", 0, 0)],
    [("sig", "HUP"), ("tick",), ("sig", "HUP")],
    [(("sig", "HUP"), ("sig", "TTIN"))],
]
MID = [("sig", "HUP"), ("exit", 0, 9), ("exit", 1, 0), ("sig", "TTOU"), ("sig", "TTIN")]


def _sim_task(t):
    params, script, do_mid = t
    k, o = sim_execute(params, script)
    out = {"runs": 1, "bad": []}
    for fp, text in sim_judge(params, k, o):
        out["bad"].append((fp, text, script, None))
    if do_mid:
        # every delivery point from the first HUP on
        qp = k.quiescent_points
        start = qp[0] if qp else 0
        stop = k.script_done_point if k.script_done_point is not None else k.npoints
        for idx in range(start, min(stop, start + 400)):
            for ev in MID:
                k2, o2 = sim_execute(params, script, inject={idx: ev})
                out["runs"] += 1
                label = k2.point_labels[idx] if idx < len(k2.point_labels) else "?"
                for fp, text in sim_judge(params, k2, o2, label):
                    out["bad"].append((fp, text, script, (idx, ev, label)))
    return out


def sim_part(thorough):
    tasks = []
    for workers, hupw in (((1, 1), (2, 2), (2, 3), (3, 1)) if thorough else ((2, 2), (2, 3))):
        for term in ("now", "late", "swallow1"):
            for bind in ("tcp", "localhost", "unix"):
                for timeout in ((0, 30) if thorough else (30,)):
                    params = {"workers": workers, "hup_workers": hupw, "term": term, "bind": bind, "timeout": timeout}
                    for si, script in enumerate(HUP_SCRIPTS):
                        do_mid = bind == "tcp" and (thorough or si in (0, 1)) and term != "late"
                        tasks.append((params, script, do_mid))
                        if bind == "tcp" and term == "now":
                            # pid counter wrapped around: the new generation has lower pids than the old one
                            tasks.append((dict(params, pids="descending"), script, False))
    res = par.pmap(_sim_task, tasks, chunksize=1)
    viols = {}
    runs = 0
    for (params, script, _m), r in zip(tasks, res):
        runs += r["runs"]
        for fp, text, sc, inj in r["bad"]:
            if fp not in viols:
                viols[fp] = violation("sim:" + fp, "%r history=%r%s: %s" % (params, c03.ser(sc), (" mid-flight %r at #%d (%s)" % (inj[1], inj[0], inj[2])) if inj else "", text),
                                      {"part": "sim", "params": params, "script": c03.ser(sc), "inject": [inj[0], list(inj[1])] if inj else None})
    return {"transitions": len(tasks), "runs": runs, "viols": list(viols.values())}


# ---------------------------------------------------------------- real processes ----------------

class Connector(threading.Thread):
    """Opens a connection every few ms and sends a short request; records refused / reset / bad replies."""

    def __init__(self, server):
        super().__init__(daemon=True)
        self.s = server
        self.stop_flag = False
        self.errors = []
        self.ok = 0
        self.dropped_unread = 0
        self.pids = []

    def run(self):
        while not self.stop_flag:
            try:
                c = self.s.connect(timeout=5)
            except OSError as e:
                # refused / reset / no such file at connect time: the listening socket was not there
                self.errors.append(("connect", type(e).__name__, str(e)[:40]))
                time.sleep(0.005)
                continue
            try:
                c.sendall(b"GET /plain HTTP/1.1\r\nHost: h\r\nConnection: close\r\n\r\n")
                head, body, complete, closed = rp.read_response(c, 5)
                if complete and body == b"ok":
                    self.ok += 1
                    self.pids.append((time.time(), rp.header(head, "X-Pid"), rp.header(head, "X-Marker") or rp.header(head, "X-Gen")))
                elif not head and not body:
                    # accepted, then closed without a byte: the connection was accepted by a worker that stopped
                    # before it started reading it (allowed for the non-sync workers, see run())
                    self.dropped_unread += 1
                else:
                    self.errors.append(("bad-reply", head[:40], body[:20]))
            except (BrokenPipeError, ConnectionResetError):
                self.dropped_unread += 1
            except OSError as e:
                self.errors.append(("io", type(e).__name__, str(e)[:40]))
            finally:
                c.close()
            time.sleep(0.005)


def real_cell(cell):
    wc, scenario, bind = cell
    if scenario == "keepalive-idle" and wc == "sync":
        return "skip"
    s = rp.Server(worker_class=wc, workers=2, bind="tcp" if bind == "localhost" else bind, graceful_timeout=3, timeout=30, keepalive=5,
                  threads=2 if wc == "gthread" else None,
                  conf_lines=["raw_env = ['VERIF_GEN=' + open(%r).read().strip()]" % "GENFILE"])
    try:
        genfile = os.path.join(s.dir, "gen.txt")
        s.conf_lines = ["raw_env = ['VERIF_GEN=' + open(%r).read().strip()]" % genfile]
        extrafile = os.path.join(s.dir, "extra.txt")
        if scenario == "raw-env-popped":
            # a variable the configuration sets and the master's own process has dropped since (a hook scrubbing a secret)
            open(extrafile, "w").write("secret")
            s.conf_lines.append("_x = open(%r).read().strip()" % extrafile)
            s.conf_lines.append("raw_env = raw_env + ['VERIF_EXTRA=' + _x]")
            s.conf_lines.append("def when_ready(server):\n    import os\n    os.environ.pop('VERIF_EXTRA', None)")
        if scenario == "wsgi-app-changed":
            s.app_in_conf = True
            s.cfg["wsgi_app"] = "app:app"
        if scenario == "raw-env-removed":
            # a variable the configuration sets, changes on the first reload and no longer mentions on the second one
            open(extrafile, "w").write("one")
            s.conf_lines.append("_x = open(%r).read().strip()" % extrafile)
            s.conf_lines.append("raw_env = raw_env + (['VERIF_EXTRA=' + _x] if _x else [])")
        if bind == "localhost":
            s.conf_lines.append("bind = 'localhost:%d' % PORT_PLACEHOLDER")
        open(genfile, "w").write("g1")
        if bind == "localhost":
            # same port, spelled with a host name: the kernel's socket name differs from the configured text
            s.port = rp.free_port()
            s.conf_lines[-1] = "bind = 'localhost:%d'" % s.port
            orig_free = rp.free_port
            rp_free = lambda: s.port
            try:
                rp.free_port = rp_free
                ok = s.start(attempts=1)
            finally:
                rp.free_port = orig_free
        else:
            ok = s.start()
        if not ok:
            return ("infrastructure", "server did not start: %s" % s.log_text()[-200:])
        old_workers = set(s.workers())
        if len(old_workers) != 2:
            time.sleep(0.5)
            old_workers = set(s.workers())
        if scenario == "raw-env-removed":
            open(extrafile, "w").write("two")
            s.signal(signal.SIGHUP)
            end = time.time() + 10
            while time.time() < end:
                ws = set(s.workers())
                if not (ws & old_workers) and len(ws) == 2:
                    break
                time.sleep(0.1)
            if set(s.workers()) & old_workers:
                return ("old-generation-survives", "old workers still alive 10 s after the first HUP")
            time.sleep(0.3)
            old_workers = set(s.workers())
            open(extrafile, "w").write("")
        conn = Connector(s)
        conn.start()
        time.sleep(0.2)
        c = None
        gate_name = None
        expect = None
        held_pid = None
        if scenario in ("app-running", "two-hups", "workers-2-3", "workers-removed"):
            c = s.connect()
            c.sendall(b"GET /gate/a HTTP/1.1\r\nHost: h\r\n\r\n")
            gate_name, expect = "app:a", b"gated-ok"
            held_pid = s.gate.wait_entered(gate_name, 8)
            if held_pid is None:
                return ("infrastructure", "gate not reached")
        elif scenario == "response-partial":
            c = s.connect()
            c.sendall(b"GET /partial/p HTTP/1.1\r\nHost: h\r\n\r\n")
            gate_name, expect = "partial:p", b"first-second"
            held_pid = s.gate.wait_entered(gate_name, 8)
            if held_pid is None:
                return ("infrastructure", "gate not reached")
        elif scenario == "head-partial":
            c = s.connect()
            c.sendall(b"GET /plain HTTP/1.1\r\nHo")
            expect = b"ok"
            time.sleep(0.2)
        new_workers = 2
        open(genfile, "w").write("g2")
        if scenario == "wsgi-app-changed":
            s.cfg["wsgi_app"] = "app2:app"
            s.write_conf()
        if scenario == "bind-respelled":
            # the same address written differently (tcp:// prefix): nothing about the listener changes
            if bind == "unix":
                s.conf_lines.append("bind = 'unix://%s'" % s.sockpath)
            else:
                s.conf_lines.append("bind = 'tcp://127.0.0.1:%d'" % s.port)
            s.write_conf()
        if scenario == "workers-removed":
            # the setting disappears from the configuration file: the built-in default (1) applies again
            del s.cfg["workers"]
            new_workers = 1
            s.write_conf()
        if scenario == "workers-2-3":
            s.cfg["workers"] = 3
            new_workers = 3
            s.write_conf()
            if bind == "localhost":
                pass
        s.signal(signal.SIGHUP)
        if scenario == "two-hups":
            time.sleep(0.05)
            open(genfile, "w").write("g3")
            s.signal(signal.SIGHUP)
        time.sleep(0.4)
        v = None
        if scenario == "head-partial":
            c.sendall(b"st: h\r\n\r\n")
        if gate_name:
            s.gate.release(gate_name)
        if c is not None:
            head, body, complete, closed = rp.read_response(c, 8)
            if not complete or body != expect:
                v = ("in-flight-request-cut:%s" % scenario, "request held in %s during HUP: head=%r body=%r complete=%s" % (scenario, head[:50], body, complete))
            elif held_pid is not None and rp.header(head, "X-Pid") != str(held_pid):
                v = ("in-flight-request-moved", "request entered worker %s but was answered by %s" % (held_pid, rp.header(head, "X-Pid")))
            c.close()
        # wait for the old generation to leave
        end = time.time() + 10
        while time.time() < end:
            ws = set(s.workers())
            if not (ws & old_workers) and len(ws) == new_workers:
                break
            time.sleep(0.1)
        time.sleep(0.3)
        conn.stop_flag = True
        conn.join(6)
        ws = set(s.workers())
        if s.proc.poll() is not None:
            v = v or ("master-died", "the master exited (%r) after HUP: %s" % (s.proc.returncode, s.log_text()[-300:]))
        if wc == "sync" and conn.dropped_unread:
            v = v or ("accepted-connection-not-answered", "%d connections were accepted and closed without a reply (sync worker)" % conn.dropped_unread)
        if conn.errors:
            v = v or ("client-error-during-reload", "%d of %d background requests failed, first: %r" % (len(conn.errors), conn.ok + len(conn.errors), conn.errors[0]))
        if ws & old_workers:
            v = v or ("old-generation-survives", "old workers %r still alive 10 s after HUP" % sorted(ws & old_workers))
        elif len(ws) != new_workers:
            v = v or ("new-generation-size", "%d workers after reload, configured %d" % (len(ws), new_workers))
        # afterwards every reply comes from a new pid with the new marker
        want_gen = "g3" if scenario == "two-hups" else "g2"
        for _ in range(6):
            try:
                c2 = s.connect()
                c2.sendall(b"GET /plain HTTP/1.1\r\nHost: h\r\nConnection: close\r\n\r\n")
                head, body, complete, closed = rp.read_response(c2, 5)
                c2.close()
            except OSError as e:
                v = v or ("client-error-after-reload", repr(e))
                break
            pid, gen = rp.header(head, "X-Pid"), rp.header(head, "X-Gen")
            if pid is not None and int(pid) in old_workers:
                v = v or ("old-worker-serves-after-reload", "pid %s" % pid)
            if gen != want_gen:
                v = v or ("old-configuration-after-reload", "reply carries generation %r, expected %r" % (gen, want_gen))
            if scenario == "wsgi-app-changed" and rp.header(head, "X-App2") != "1":
                v = v or ("old-application-after-reload", "the configuration file now names another application (wsgi_app); the new workers still serve the old one")
            if scenario == "raw-env-removed" and rp.header(head, "X-Extra") != "<unset>":
                v = v or ("stale-environment-after-reload", "the configuration no longer sets VERIF_EXTRA (it was 'one', then 'two' after the first "
                          "reload, absent at the second), yet the new workers run with VERIF_EXTRA=%r" % rp.header(head, "X-Extra"))
        return v
    finally:
        s.cleanup()


SCENARIOS = ("idle", "app-running", "response-partial", "head-partial", "two-hups", "workers-2-3", "workers-removed", "raw-env-removed", "raw-env-popped", "wsgi-app-changed", "bind-respelled")


def real_cells(thorough):
    cells = []
    for wc in ("sync", "gthread", "gevent", "eventlet"):
        for sc in SCENARIOS:
            if thorough:
                for bind in ("tcp", "unix", "localhost"):
                    cells.append((wc, sc, bind))
            else:
                cells.append((wc, sc, {"idle": "localhost", "app-running": "unix"}.get(sc, "tcp")))
    return cells


def real_part(thorough, seed):
    cells = real_cells(thorough)
    order = list(cells)
    random.Random(seed).shuffle(order)
    results = par.pmap(real_cell, order, jobs=14)
    viols = []
    unconfirmed = []
    infra = 0
    for cell, v in zip(order, results):
        if v is None or v == "skip":
            continue
        v2 = real_cell(cell)
        if v2 is None or v2 == "skip" or v2[0] != v[0]:
            unconfirmed.append({"cell": list(cell), "first": v[0]})
            continue
        if v[0] == "infrastructure":
            infra += 1
            continue
        viols.append(violation("real:%s:%s" % (v[0], cell[0]), "worker=%s scenario=%s bind=%s: %s" % (cell[0], cell[1], cell[2], v[1]),
                               {"part": "real", "cell": list(cell)}))
    return {"cells": len(cells), "viols": viols, "unconfirmed": unconfirmed, "infrastructure_failures": infra}


def run(ctx):
    t0 = time.time()
    sim = sim_part(ctx.thorough)
    t1 = time.time()
    real = real_part(ctx.thorough, ctx.seed)
    cov = {
        "evaluations": sim["runs"] + real["cells"],
        "distinct_nontrivial": sim["transitions"] + real["cells"],
        "rule": "sim: one case per (workers before/after, old-worker reaction, bind spelling, timeout, HUP history) + one per mid-flight event at every delivery "
                "point from the first HUP on; real: one case per (worker class, scenario, bind) under a background connector; all involve a reload",
        "samples": [{"sim": {"history": [["sig", "HUP"], ["sig", "HUP"]], "term": "swallow1", "bind": "localhost"}},
                    {"real": ["gevent", "response-partial", "tcp"]}],
        "exhaustive": True,
        "sim_histories": sim["transitions"], "sim_runs_with_midflight": sim["runs"],
        "real_cells": real["cells"], "real_unconfirmed": real["unconfirmed"], "real_infrastructure_failures": real["infrastructure_failures"],
        "sim_wall_s": round(t1 - t0, 1), "real_wall_s": round(time.time() - t1, 1),
    }
    return Result("exploration", cov, sim["viols"] + real["viols"],
                  ["'not refused at any moment' is observed by a connector opening a connection every 5 ms in the real runs; the exhaustive part is the simulated "
                   "master: no explored history closes a listener or recreates sockets",
                   "a real-process anomaly counts only if it reproduces on an immediate serial re-run"])


def replay(case):
    if case["part"] == "real":
        v = real_cell(tuple(case["cell"]))
        if v and v != "skip":
            return violation("real:%s:%s" % (v[0], case["cell"][0]), v[1], case)
        return None
    params = case["params"]
    script = c03.deser(case["script"])
    inj = {case["inject"][0]: tuple(case["inject"][1])} if case.get("inject") else None
    k, o = sim_execute(params, script, inject=inj)
    label = None
    if inj:
        idx = case["inject"][0]
        label = k.point_labels[idx] if idx < len(k.point_labels) else "?"
    bad = sim_judge(params, k, o, label)
    if bad:
        return violation("sim:" + bad[0][0], bad[0][1] + "\ntrace tail: %r" % (k.trace[-20:],), case)
    return None
