"""C12 - request-head limits are enforced and parser buffering is bounded.

Part A (thresholds): for a grid of limit configurations, inputs at L-3 .. L+3 of each dimension
(request-line length, number of field lines, single field size) in every field 'shape' the code
treats differently, whole and segmented, with and without following bytes.  Oracle: one monotone
threshold T per dimension with limit-2 <= T <= limit (field count: exact), independent of shape,
segmentation and what follows.
Part B (endless streams): for every waiting state of the parser a lazy metered source that never
sends the awaited delimiter; the parser must reject before consuming more than the configured
bound plus one read; reaching the cap (4 x bound + 64 KiB) without rejection is 'unbounded'."""
import random

from vlib import gparse, par
from vlib.runner import Result, violation

NEXT = b"GET /next HTTP/1.1\r\nHost: n\r\n\r\n"
# many pipelined requests arriving in the same read as the head under test: bytes after the head's end are not head bytes
BIGTAIL = NEXT * 280
MAXLINE, MAXFIELDS, DEFSIZE = 8190, 32768, 8190


def eff_line(v):
    return MAXLINE if (v < 0 or v >= MAXLINE) else v          # 0 = unlimited (documented)


def eff_fields(v):
    return MAXFIELDS if (v <= 0 or v > MAXFIELDS) else v


def eff_size(v):
    return DEFSIZE if v < 0 else v                             # 0 = unlimited (documented)


def accepted(chunks, cfg, want_trailers=False):
    """(accepted?, detail) - accepted = first request handed out and its body read without error."""
    reqs, kind, exc, text = gparse.parse_stream(chunks, cfg, max_requests=1)
    if reqs and reqs[0][5] is None:
        return True, "ok"
    if reqs:
        return False, reqs[0][8]
    return False, exc + ":" + text


def segs(stream):
    n = len(stream)
    yield "whole", [stream[i:i + 8192] for i in range(0, n, 8192)] if n > 8192 else [stream]
    yield "halves", [c for c in (stream[:n // 2], stream[n // 2:]) if c] if n <= 16384 else \
        [stream[i:i + 4000] for i in range(0, n, 4000)]
    yield "blocks37", [stream[i:i + 37] for i in range(0, n, 37)] if n < 3000 else \
        [stream[i:i + 8191] for i in range(0, n, 8191)]
    # every CRLF of the head cut in two: a read ends with the CR, the next one starts with the LF
    head_end = stream.find(b"\r\n\r\n")
    head_end = n if head_end < 0 else head_end + 4
    pieces, prev = [], 0
    i = stream.find(b"\r\n", 0, head_end)
    while 0 <= i < head_end and len(pieces) < 64:
        pieces.append(stream[prev:i + 1])
        prev = i + 1
        i = stream.find(b"\r\n", i + 2, head_end)
    pieces.append(stream[prev:])
    out = []
    for pc in pieces:
        out += [pc[j:j + 8192] for j in range(0, len(pc), 8192)]
    yield "crlf-split", [c for c in out if c]


# ------------------------------------------------------------------ part A ------------------

def line_cases(L):
    """request lines of exact length s (without CRLF)"""
    base = len(b"GET / HTTP/1.1")
    if L == 0:
        sizes = [base, 20000]
    else:
        sizes = [s for s in range(L - 3, L + 4) if s >= base]
    for s in sizes:
        yield s, b"GET /" + b"a" * (s - base) + b" HTTP/1.1\r\nHost: h\r\n\r\n"


def field_line(s, shape):
    """one field line of exact length s (without CRLF)"""
    if shape == "plain":
        return b"X-A: " + b"v" * (s - 5)
    if shape == "ows":
        return b"X-A: \t " + b"v" * (s - 10) + b" \t"
    if shape == "underscore":
        return b"X_A: " + b"v" * (s - 5)
    if shape == "empty-value":
        return b"X-" + b"a" * (s - 3) + b":"
    raise ValueError(shape)


def size_cases(S, shape, where):
    if S == 0:
        sizes = [12, 20000]
    else:
        sizes = [s for s in range(S - 5, S + 3) if s >= 12]
    for s in sizes:
        fl = field_line(s, shape)
        if where == "head":
            yield s, b"GET / HTTP/1.1\r\n" + fl + b"\r\nHost: h\r\n\r\n"
        else:
            yield s, b"POST / HTTP/1.1\r\nTransfer-Encoding: chunked\r\n\r\n1\r\na\r\n0\r\n" + fl + b"\r\n\r\n"


def count_cases(N, shape, where):
    ns = sorted(set(n for n in (N - 1, N, N + 1, N + 2) if n >= 0))
    if N >= 1000:
        ns = [N, N + 1]
    for n in ns:
        if shape == "plain":
            fl = [b"X-%d: v" % i for i in range(n)]
        elif shape == "underscore-mixed":
            fl = [(b"X_%d: v" if i % 2 else b"X-%d: v") % i for i in range(n)]
        elif shape == "underscore-all":
            fl = [b"X_%d: v" % i for i in range(n)]
        elif shape == "repeated":
            fl = [b"X-A: v"] * n
        elif shape == "folded":
            # obsolete line folding (permitted by configuration here): one field over three physical lines is ONE field
            fl = [b"X-%d: v\r\n  more\r\n\tand more" % i for i in range(n)]
        block = b"".join(f + b"\r\n" for f in fl)
        if where == "head":
            yield n, b"GET / HTTP/1.1\r\n" + block + b"\r\n"
        else:
            yield n, b"POST / HTTP/1.1\r\nTransfer-Encoding: chunked\r\n\r\n1\r\na\r\n0\r\n" + block + b"\r\n"


GRID_LINE = [0, 16, 100, 4094, 8189, 8190, 9000]
GRID_FIELDS = [0, 1, 2, 5, 100, 40000]
GRID_SIZE = [0, 16, 100, 8190]


def _threshold_task(t):
    dim, cfgkw, shape, where = t
    cfg = gparse.make_cfg(**cfgkw)
    evals = 0
    viols = []
    results = {}     # (tail, seg) -> {size: accepted}
    if dim == "line":
        L = eff_line(cfgkw.get("limit_request_line", 4094))
        cases = list(line_cases(L))
        if shape == "after-proxy-line":
            cases = [(s_, b"PROXY TCP4 10.0.0.1 10.0.0.2 1111 80\r\n" + st) for s_, st in cases]
        lo, hi, exact = L - 2, L, False
        unlimited = L == 0
    elif dim == "size":
        S = eff_size(cfgkw.get("limit_request_field_size", 8190))
        cases = list(size_cases(S, shape, where))
        lo, hi, exact = S - 2, S, False
        unlimited = S == 0
    else:
        N = eff_fields(cfgkw.get("limit_request_fields", 100))
        cases = list(count_cases(N, shape, where))
        lo, hi, exact = N, N, True
        unlimited = False
    details = {}
    for size, stream in cases:
        for tail in (b"", NEXT, BIGTAIL):
            for sname, chunks in segs(stream + tail):
                evals += 1
                ok, det = accepted(chunks, cfg)
                results.setdefault((len(tail), sname), {})[size] = ok
                details[(len(tail), sname, size)] = det
    ts = set()
    for key, m in sorted(results.items()):
        sizes = sorted(m)
        acc = [s for s in sizes if m[s]]
        rej = [s for s in sizes if not m[s]]
        where_s = "%s/%s/%s" % (dim, shape, where)
        if unlimited:
            if rej:
                viols.append(violation("limit:%s:rejected-although-unlimited" % where_s,
                                       "cfg=%r %s: size %d rejected (%s) although 0 = unlimited" % (cfgkw, key, rej[0], details[key + (rej[0],)]),
                                       {"dim": dim, "cfg": cfgkw, "shape": shape, "where": where}))
            continue
        if acc and rej and max(acc) > min(rej):
            viols.append(violation("limit:%s:not-monotone" % where_s,
                                   "cfg=%r %s: accepted %r but rejected %r" % (cfgkw, key, acc, rej),
                                   {"dim": dim, "cfg": cfgkw, "shape": shape, "where": where}))
            continue
        T = max(acc) if acc else None
        ts.add(T)
        over = [s for s in acc if s > hi]
        under = [s for s in rej if s <= lo]
        if over:
            viols.append(violation("limit:%s:over-limit-accepted" % where_s,
                                   "cfg=%r %s: %s %d accepted, limit %d" % (cfgkw, key, dim, over[-1], hi),
                                   {"dim": dim, "cfg": cfgkw, "shape": shape, "where": where}))
        if under:
            viols.append(violation("limit:%s:within-limit-rejected" % where_s,
                                   "cfg=%r %s: %s %d rejected (%s), limit %d" % (cfgkw, key, dim, under[0], details[key + (under[0],)], hi),
                                   {"dim": dim, "cfg": cfgkw, "shape": shape, "where": where}))
    if len(ts) > 1 and not viols:
        viols.append(violation("limit:%s/%s/%s:threshold-depends-on-context" % (dim, shape, where),
                               "cfg=%r: thresholds %r differ across segmentation / following bytes" % (cfgkw, sorted(ts, key=str)),
                               {"dim": dim, "cfg": cfgkw, "shape": shape, "where": where}))
    return {"evals": evals, "viols": viols, "key": repr(t), "T": sorted(ts, key=str), "kind": "A"}


# ------------------------------------------------------------------ part B ------------------

class Endless:
    """Lazy metered source: prefix, then filler forever, in reads of `step` bytes."""

    def __init__(self, prefix, filler, step, cap):
        self.prefix, self.filler, self.step, self.cap = prefix, filler, step, cap
        self.pulled = 0
        self.pos = 0

    def __iter__(self):
        return self

    def __next__(self):
        if self.pulled >= self.cap:
            raise StopIteration
        out = bytearray()
        while len(out) < self.step:
            if self.pos < len(self.prefix):
                take = self.prefix[self.pos:self.pos + self.step - len(out)]
                self.pos += len(take)
                out += take
            else:
                k = self.step - len(out)
                i = (self.pos - len(self.prefix)) % len(self.filler)
                take = (self.filler[i:] + self.filler * (k // len(self.filler) + 1))[:k]
                self.pos += k
                out += take
        self.pulled += len(out)
        return bytes(out)


STATES = {
    # state -> (prefix, filler, which bound applies)
    "request-line": (b"GET /", b"a", "line"),
    "header-field": (b"GET / HTTP/1.1\r\nX-A: ", b"v", "block"),
    "header-fields-endless": (b"GET / HTTP/1.1\r\n", b"X-A: v\r\n", "block"),
    "header-name": (b"GET / HTTP/1.1\r\n", b"n", "block"),
    "proxy-line": (b"PROXY TCP4 ", b"1", "line"),
    "request-line-after-proxy": (b"PROXY TCP4 10.0.0.1 10.0.0.2 1111 80\r\nGET /", b"a", "line2"),
    "chunk-size-line": (b"POST / HTTP/1.1\r\nTransfer-Encoding: chunked\r\n\r\n", b"0", "body"),
    "chunk-extension": (b"POST / HTTP/1.1\r\nTransfer-Encoding: chunked\r\n\r\n1;", b"e", "body"),
    "trailer-field": (b"POST / HTTP/1.1\r\nTransfer-Encoding: chunked\r\n\r\n0\r\nT: ", b"v", "body"),
    "trailer-fields-endless": (b"POST / HTTP/1.1\r\nTransfer-Encoding: chunked\r\n\r\n0\r\n", b"T: v\r\n", "body"),
}

B_CONFIGS = {
    "small": {"limit_request_line": 64, "limit_request_fields": 4, "limit_request_field_size": 64, "proxy_protocol": True, "proxy_allow_ips": "*"},
    "default": {"proxy_protocol": True, "proxy_allow_ips": "*"},
    "nosize": {"limit_request_fields": 3, "limit_request_field_size": 0, "proxy_protocol": True, "proxy_allow_ips": "*"},
}


def _endless_task(t):
    state, cfgname, step = t
    kw = B_CONFIGS[cfgname]
    cfg = gparse.make_cfg(**kw)
    line = eff_line(kw.get("limit_request_line", 4094))
    fields = eff_fields(kw.get("limit_request_fields", 100))
    size = eff_size(kw.get("limit_request_field_size", 8190)) or DEFSIZE
    block = fields * (size + 2) + 4
    prefix, filler, which = STATES[state]
    bound = {"line": line + 2, "line2": line + 2 + 40, "block": block + 3 + line + 2, "body": max(block, line) + len(prefix)}[which] + step
    cap = 4 * bound + 65536
    src = Endless(prefix, filler, step, cap)
    p = gparse.RequestParser(cfg, src, gparse.PEER)
    outcome = None
    try:
        req = next(p)
        body, err = gparse.drain(req.body)
        outcome = "body-error:" + type(err).__name__ if err else "accepted"
    except StopIteration:
        outcome = "stop"
    except Exception as e:
        outcome = "error:" + type(e).__name__
    viols = []
    rejected = outcome.startswith("error:") and outcome != "error:NoMoreData" or \
        (outcome.startswith("body-error:") and outcome != "body-error:NoMoreData")
    if not rejected or src.pulled >= cap:
        viols.append(violation("unbounded:%s" % state,
                               "cfg=%s reads of %d: %d bytes consumed without rejection (bound %d, cap %d), outcome %s" % (
                                   cfgname, step, src.pulled, bound, cap, outcome),
                               {"state": state, "cfg": cfgname, "step": step}))
    elif src.pulled > bound:
        viols.append(violation("late-rejection:%s" % state,
                               "cfg=%s reads of %d: rejected only after %d bytes, bound %d (%s)" % (cfgname, step, src.pulled, bound, outcome),
                               {"state": state, "cfg": cfgname, "step": step}))
    return {"evals": 1, "viols": viols, "key": repr(t), "consumed": src.pulled, "bound": bound, "outcome": outcome, "kind": "B"}


def _task(t):
    return _endless_task(t[1:]) if t[0] == "B" else _threshold_task(t[1:])


def tasks_for(tier):
    T = []
    for L in GRID_LINE:
        T.append(("A", "line", {"limit_request_line": L}, "-", "head"))
    for L in (64, 100, 4094, 8190):
        T.append(("A", "line", {"limit_request_line": L, "proxy_protocol": True, "proxy_allow_ips": "*"}, "after-proxy-line", "head"))
    for S in GRID_SIZE:
        for shape in ("plain", "ows", "underscore", "empty-value"):
            for hm in (("drop",) if shape != "underscore" else ("drop", "dangerous")):
                T.append(("A", "size", {"limit_request_field_size": S, "header_map": hm}, shape, "head"))
        if S == 0 or S >= 32:      # the head needs 'Transfer-Encoding: chunked' (28 bytes) to pass
            T.append(("A", "size", {"limit_request_field_size": S}, "plain", "trailer"))
    for N in GRID_FIELDS:
        for shape in ("plain", "underscore-mixed", "underscore-all", "repeated"):
            for hm in (("drop",) if shape in ("plain", "repeated") else ("drop", "dangerous")):
                T.append(("A", "count", {"limit_request_fields": N, "header_map": hm}, shape, "head"))
        T.append(("A", "count", {"limit_request_fields": N}, "plain", "trailer"))
        if 0 < N <= 100:
            T.append(("A", "count", {"limit_request_fields": N, "permit_obsolete_folding": True}, "folded", "head"))
    # pairs of dimensions: a small line limit with a small field limit etc.
    T.append(("A", "line", {"limit_request_line": 100, "limit_request_field_size": 16, "limit_request_fields": 2}, "-", "head"))
    T.append(("A", "size", {"limit_request_line": 16, "limit_request_field_size": 100, "limit_request_fields": 2}, "plain", "head"))
    T.append(("A", "count", {"limit_request_line": 16, "limit_request_field_size": 16, "limit_request_fields": 5}, "plain", "head"))
    for state in STATES:
        for cfgname in B_CONFIGS:
            steps = (1, 7, 8192) if cfgname != "default" else (8192,)
            if tier == "thorough" and cfgname == "default":
                steps = (1000, 8192)
            for step in steps:
                T.append(("B", state, cfgname, step))
    return T


def run(ctx):
    T = tasks_for(ctx.tier)
    order = list(range(len(T)))
    random.Random(ctx.seed).shuffle(order)
    res = par.pmap(_task, [T[i] for i in order])
    res.sort(key=lambda r: r["key"])
    viols = [v for r in res for v in r["viols"]]
    a = [r for r in res if r["kind"] == "A"]
    b = [r for r in res if r["kind"] == "B"]
    cov = {
        "evaluations": sum(r["evals"] for r in res),
        "distinct_nontrivial": sum(r["evals"] for r in a) + len(b),
        "rule": "part A: every (limit configuration, dimension, field shape, size in L-3..L+3, following bytes, segmentation) cell; "
                "part B: every (parser waiting state, configuration, read size) endless stream; all cells are at or next to a limit, hence non-trivial",
        "samples": [{"endless": r["key"], "consumed": r["consumed"], "bound": r["bound"], "outcome": r["outcome"]} for r in b[:4]] +
                   [{"threshold_cell": r["key"], "T": r["T"]} for r in a[:4]],
        "exhaustive": True,
        "threshold_cells": len(a), "endless_streams": len(b),
        "max_consumed_before_rejection": max(r["consumed"] for r in b),
    }
    return Result("exploration", cov, viols,
                  ["limits are measured without the CRLF; a threshold anywhere in [limit-2, limit] is accepted (the documentation does not say whether CRLF counts)",
                   "0 = unlimited only for limit_request_line and limit_request_field_size, as documented",
                   "endless streams are cut at 4 x bound + 64 KiB: reaching the cut without rejection is reported as unbounded"])


def replay(case):
    if "state" in case:
        r = _endless_task((case["state"], case["cfg"], case["step"]))
    else:
        r = _threshold_task((case["dim"], case["cfg"], case["shape"], case["where"]))
    return r["viols"][0] if r["viols"] else None
