"""C17 - the pid file names the running master, exclusively and atomically.

Decides by: explicit-state breadth-first search over operation sequences of three instances (two
pids, so that pid reuse happens) on two paths, executing the REAL gunicorn.pidfile.Pidfile against
an in-memory file system (vlib.simfs); in every create/rename a crash is injected before every
logged system call.  Invariants are evaluated on every transition.  Conformance: every explored
history of the two-instance fragment up to a depth is replayed on a real directory with real helper
processes (live / killed) and must give the same projected observations."""
import importlib.util
import os
import random
import shutil
import signal
import tempfile

from vlib import par, simfs
from vlib.runner import Result, violation

P, P2 = "/run/app.pid", "/run/app.pid.2"
PIDS = {"A": 11, "B": 12, "C": 11}          # C reuses A's pid: it can only exist once A is dead


def fresh_pidfile_module():
    """A private copy of gunicorn.pidfile so that rebinding its os/tempfile/open disturbs nobody."""
    import gunicorn.pidfile as real
    spec = importlib.util.spec_from_file_location("verif_pidfile_copy", real.__file__)
    mod = importlib.util.module_from_spec(spec)
    spec.loader.exec_module(mod)
    return mod


class NView:
    """A file-system snapshot that can be asked with any spelling of a path."""

    def __init__(self, d, fs):
        self.d, self.fs = d, fs

    def get(self, k, default=None):
        return self.d.get(self.fs.norm(k), default)

    def __contains__(self, k):
        return self.fs.norm(k) in self.d

    def __iter__(self):
        return iter(self.d)

    def __eq__(self, other):
        return self.d == (other.d if isinstance(other, NView) else other)

    def __ne__(self, other):
        return not self.__eq__(other)

    def items(self):
        return self.d.items()


class World:
    """Replays an operation history on a fresh SimFS; checks invariants on the last operation."""

    def __init__(self, mod):
        self.mod = mod
        self.fs = simfs.SimFS()
        self.fs.install(mod)
        self.fs.live.add(110)
        self.inst = {}        # name -> dict(alive, pid, pf)

    def canon(self):
        files = tuple(sorted((p, d) for p, d in self.fs.snapshot().items()))
        inst = tuple(sorted((n, i["alive"], i["pf"].fname if i["pf"] else None, i["pf"].pid if i["pf"] else None)
                            for n, i in self.inst.items()))
        return files, inst

    def owner(self, content):
        if content is None:
            return None
        try:
            return int(content.decode("utf-8", "replace"))
        except ValueError:
            return None

    def enabled(self):
        ops = []
        alive = {n for n, i in self.inst.items() if i["alive"]}
        for n in ("A", "B", "C"):
            if n not in self.inst:
                if PIDS[n] not in self.fs.live and not (n == "C" and "A" not in self.inst):
                    ops.append(("spawn", n))
                continue
            i = self.inst[n]
            if not i["alive"]:
                continue
            if i["pf"] is None:
                ops.append(("create", n, P))
                ops.append(("create", n, P2))
            else:
                ops.append(("create", n, None))
                ops.append(("validate", n))
                ops.append(("unlink", n))
                if i["pf"].pid is not None:
                    # a master whose create() was refused aborts startup: it never gets to rename
                    ops.append(("rename", n, P if i["pf"].fname != P else P2))
            ops.append(("die", n))
        for path in (P, P2):
            # 110 is a live process outside the model whose pid has A's / C's pid as a proper prefix; 1 is a prefix of both
            for content in (b"", b"garbage\n", b"11\n", b"12\n", b"99\n", b"110\n", b"1\n", b"\xff\xfe1\x001\x00"):
                if self.fs.files.get(self.fs.norm(path)) is None or self.fs.files[self.fs.norm(path)].data != content:
                    ops.append(("foreign", path, content))
        return ops

    def apply(self, op, check=True, crash_at=None):
        """Executes one op; returns list of (fingerprint, text) for violated invariants."""
        fs = self.fs
        kind = op[0]
        bad = []
        if kind == "spawn":
            self.inst[op[1]] = {"alive": True, "pid": PIDS[op[1]], "pf": None}
            fs.live.add(PIDS[op[1]])
            return bad
        if kind == "die":
            self.inst[op[1]]["alive"] = False
            fs.live.discard(self.inst[op[1]]["pid"])
            return bad
        if kind == "foreign":
            ino = simfs.Inode()
            ino.data = op[2]
            fs.files[fs.norm(op[1])] = ino
            return bad
        n = op[1]
        i = self.inst[n]
        pid = i["pid"]
        fs.cur_pid = pid
        fs.deleted = []
        fs.log = []
        fs.crash_at = crash_at
        before = NView(fs.snapshot(), fs)
        live_before = set(fs.live)
        raised = None
        result = None
        try:
            if kind == "create":
                if i["pf"] is None:
                    i["pf"] = self.mod.Pidfile(op[2])
                fname = i["pf"].fname
                i["pf"].create(pid)
            elif kind == "validate":
                fname = i["pf"].fname
                result = i["pf"].validate()
            elif kind == "unlink":
                fname = i["pf"].fname
                i["pf"].unlink()
            elif kind == "rename":
                fname = i["pf"].fname
                i["pf"].rename(op[2])
        except simfs.Crash:
            i["alive"] = False
            fs.live.discard(pid)
            raised = "crash"
        except RuntimeError as e:
            raised = "RuntimeError"
        except Exception as e:
            raised = type(e).__name__
            bad.append(("unexpected-exception:%s" % kind, "%s raised %s: %s" % (op, type(e).__name__, e)))
        fs.crash_at = None
        self.last = {"raised": raised, "result": result, "log": list(fs.log)}
        if not check:
            return bad
        after = NView(fs.snapshot(), fs)
        # (5) nothing naming another live process may be deleted or overwritten
        for path, content, by, how in fs.deleted:
            own = self.owner(content)
            if path in (P, P2) and own is not None and own != pid and own in live_before:
                bad.append(("deleted-live-foreign-file:%s" % kind, "%s (%s by pid %d) destroyed %s naming live pid %d" % (op, how, pid, path, own)))
        # only pid files may remain once an operation completed
        if raised != "crash":
            extra = [p for p in after if p not in (fs.norm(P), fs.norm(P2))]
            if extra:
                bad.append(("temporary-file-left:%s" % kind, "%s left %r behind" % (op, extra)))
        if raised == "crash":
            # (3) at any crash point each pid path is absent, unchanged, or complete new content
            for path in (P, P2):
                c = after.get(path)
                ok = c is None or c == before.get(path) or c == b"%d\n" % pid
                if not ok:
                    bad.append(("crash:torn-pid-file:%s" % kind, "%s crashed before call #%d (%s): %s holds %r (before: %r)" % (
                        op, crash_at, self.last["log"][-1][1], path, c, before.get(path))))
                if c is None and before.get(path) is not None and kind == "create":
                    own = self.owner(before.get(path))
                    if own is not None and own in live_before and own != pid:
                        bad.append(("crash:live-file-lost", "%s crashed before call #%d: %s of live pid %d vanished" % (op, crash_at, path, own)))
            return bad
        if kind == "create":
            c0 = before.get(fname)
            own = self.owner(c0)
            must_raise = own is not None and own in live_before and own != pid
            if must_raise and raised is None:
                bad.append(("create:took-over-live-file", "%s: %s named live pid %d, create() did not refuse" % (op, fname, own)))
            if not must_raise and raised is not None and not bad:
                bad.append(("create:refused-stale-file", "%s: %s held %r (no other live process), create() raised %s" % (op, fname, c0, raised)))
            if raised is None and not must_raise:
                if own == pid:
                    if after.get(fname) != c0:
                        bad.append(("create:own-file-changed", "%s: file already named the caller, content changed to %r" % (op, after.get(fname))))
                elif after.get(fname) != b"%d\n" % pid:
                    bad.append(("create:content", "%s: %s holds %r afterwards" % (op, fname, after.get(fname))))
            if raised is not None and after.get(fname) != c0:
                bad.append(("create:refused-but-changed", "%s raised but %s changed %r -> %r" % (op, fname, c0, after.get(fname))))
        elif kind == "validate":
            own = self.owner(before.get(fname))
            want = own if (own is not None and own in live_before) else None
            if result != want:
                bad.append(("validate:result", "%s returned %r, file %r, live %r" % (op, result, before.get(fname), sorted(live_before))))
            if after != before:
                bad.append(("validate:mutated", "%s changed the file system" % (op,)))
        elif kind == "unlink":
            own = self.owner(before.get(fname))
            mine = own is not None and own == i["pf"].pid
            if mine and fname in after:
                bad.append(("unlink:own-file-kept", "%s: %s names the caller but was not removed" % (op, fname)))
            if not mine and after.get(fname) != before.get(fname):
                bad.append(("unlink:foreign-file-touched", "%s: %s held %r (not the caller's pid %r) and was changed to %r" % (
                    op, fname, before.get(fname), i["pf"].pid, after.get(fname))))
        elif kind == "rename":
            own_old = self.owner(before.get(fname))
            mine = own_old is not None and own_old == i["pf"].pid
            new = op[2]
            if not mine and after.get(fname) != before.get(fname):
                bad.append(("rename:foreign-old-file-touched", "%s: old path %s held %r, now %r" % (op, fname, before.get(fname), after.get(fname))))
            if mine and fname in after:
                bad.append(("rename:old-file-kept", "%s: old path %s still exists" % (op, fname)))
            own_new = self.owner(before.get(new))
            must_raise = own_new is not None and own_new in live_before and own_new != pid
            if must_raise and raised is None:
                bad.append(("rename:took-over-live-file", "%s: %s named live pid %d" % (op, new, own_new)))
            if raised is None and not must_raise and own_new != pid and after.get(new) != b"%d\n" % pid:
                bad.append(("rename:content", "%s: %s holds %r afterwards" % (op, new, after.get(new))))
        return bad


def replay_history(mod, hist, check_last=True, crash_at=None):
    w = World(mod)
    bad = []
    for k, op in enumerate(hist):
        last = k == len(hist) - 1
        bad = w.apply(tuple(op), check=last and check_last, crash_at=crash_at if last else None)
    return w, bad


def explore(depth, roots=None):
    """BFS with canonical-state dedup.  Returns stats dict."""
    mod = fresh_pidfile_module()
    seen = {}
    frontier = [[]] if roots is None else roots
    w0 = World(mod)
    seen[w0.canon()] = []
    states = 1
    transitions = 0
    crash_points = 0
    viols = {}
    samples = []
    maxd = 0
    for d in range(depth):
        nxt = []
        for hist in frontier:
            w, _ = replay_history(mod, hist, check_last=False)
            for op in w.enabled():
                h2 = hist + [op]
                w2, bad = replay_history(mod, h2)
                transitions += 1
                for fp, text in bad:
                    if fp not in viols:
                        viols[fp] = violation(fp, "history %r: %s" % (h2, text), {"history": [list(o) for o in _ser(h2)], "crash_at": None})
                if op[0] in ("create", "rename") and w2.last["raised"] != "crash":
                    nlog = len(w2.last["log"])
                    for k in range(nlog):
                        w3, bad3 = replay_history(mod, h2, crash_at=k)
                        crash_points += 1
                        for fp, text in bad3:
                            if fp not in viols:
                                viols[fp] = violation(fp, "history %r: %s" % (h2, text), {"history": [list(o) for o in _ser(h2)], "crash_at": k})
                        key3 = w3.canon()
                        if key3 not in seen:
                            seen[key3] = h2 + [("crash", k)]
                            states += 1
                key = w2.canon()
                if key not in seen:
                    seen[key] = h2
                    states += 1
                    nxt.append(h2)
                    maxd = d + 1
                    if len(samples) < 4 and d >= 2 and op[0] in ("rename", "unlink"):
                        samples.append([list(o) for o in _ser(h2)])
        frontier = nxt
        if not frontier:
            break
    return {"states": states, "transitions": transitions, "crash_points": crash_points, "viols": list(viols.values()),
            "samples": samples, "max_depth": maxd, "frontier_left": len(frontier)}


def _ser(hist):
    return [tuple(x.decode("latin-1") if isinstance(x, bytes) else x for x in op) for op in hist]


def _deser(hist):
    out = []
    for op in hist:
        op = list(op)
        if op[0] == "foreign":
            op[2] = op[2].encode("latin-1")
        out.append(tuple(op))
    return out


# ---------------------------------------------------------------- conformance on the real FS ----

def _helper_loop(rfd, wfd, path_map):
    """Runs in a forked child: executes Pidfile commands with the REAL module on the real directory."""
    import pickle
    from gunicorn.pidfile import Pidfile
    r = os.fdopen(rfd, "rb")
    w = os.fdopen(wfd, "wb")
    pf = None
    while True:
        try:
            cmd = pickle.load(r)
        except EOFError:
            os._exit(0)
        raised = None
        result = None
        try:
            if cmd[0] == "create":
                if pf is None:
                    pf = Pidfile(path_map[cmd[1]])
                pf.create(os.getpid())
            elif cmd[0] == "validate":
                result = pf.validate()
            elif cmd[0] == "unlink":
                pf.unlink()
            elif cmd[0] == "rename":
                pf.rename(path_map[cmd[1]])
        except RuntimeError:
            raised = "RuntimeError"
        except Exception as e:
            raised = type(e).__name__
        pickle.dump((raised, result), w)
        w.flush()


def conformance(depth, cap):
    """Replays two-instance histories (no pid reuse) on a real directory with real processes."""
    import pickle
    mod = fresh_pidfile_module()
    hists = []
    frontier = [[]]
    seen = set()
    for d in range(depth):
        nxt = []
        for hist in frontier:
            w, _ = replay_history(mod, hist, check_last=False)
            for op in w.enabled():
                # (contents naming pids outside the model - 99, and the prefix-related 110 / 1 - cannot be reproduced with real pids)
                if op[1] == "C" or (op[0] == "foreign" and op[2] in (b"99\n", b"110\n", b"1\n")):
                    continue
                # a foreign file naming a pid that only later becomes an instance is pid reuse: not replayable
                if op[0] == "foreign" and ((op[2] == b"11\n" and "A" not in w.inst) or (op[2] == b"12\n" and "B" not in w.inst)):
                    continue
                h2 = hist + [op]
                w2, _ = replay_history(mod, h2, check_last=False)
                key = (w2.canon(), tuple(h2[-2:]))
                if key in seen:
                    continue
                seen.add(key)
                nxt.append(h2)
                if any(o[0] in ("create", "rename", "unlink", "validate") for o in h2):
                    hists.append(h2)
        frontier = nxt
    hists = hists[:cap]
    checked = 0
    mismatches = []
    for hist in hists:
        d = tempfile.mkdtemp(prefix="verif-c17-", dir="/dev/shm" if os.path.isdir("/dev/shm") else None)
        path_map = {P: os.path.join(d, "app.pid"), P2: os.path.join(d, "app.pid.2")}
        procs = {}
        dead_pid = None
        try:
            # a pid that is certainly dead: fork + reap
            z = os.fork()
            if z == 0:
                os._exit(0)
            os.waitpid(z, 0)
            dead_pid = z
            w = World(mod)
            for op in hist:
                w.apply(op, check=False)
                sim = (w.last["raised"], w.last["result"]) if op[0] in ("create", "validate", "unlink", "rename") else None
                if op[0] == "spawn":
                    r1, w1 = os.pipe()
                    r2, w2 = os.pipe()
                    pid = os.fork()
                    if pid == 0:
                        os.close(w1)
                        os.close(r2)
                        try:
                            _helper_loop(r1, w2, path_map)
                        finally:
                            os._exit(0)
                    os.close(r1)
                    os.close(w2)
                    procs[op[1]] = {"pid": pid, "w": os.fdopen(w1, "wb"), "r": os.fdopen(r2, "rb")}
                elif op[0] == "die":
                    pr = procs[op[1]]
                    os.kill(pr["pid"], signal.SIGKILL)
                    os.waitpid(pr["pid"], 0)
                    pr["dead"] = True
                elif op[0] == "foreign":
                    content = op[2]
                    own = w.owner(content)
                    if own in (11, 12):
                        name = "A" if own == 11 else "B"
                        real = procs[name]["pid"] if name in procs else dead_pid
                        content = b"%d\n" % real
                    with open(path_map[op[1]], "wb") as f:
                        f.write(content)
                else:
                    pr = procs[op[1]]
                    cmd = (op[0], op[2]) if op[0] == "rename" else (op[0], op[2] if op[0] == "create" else None)
                    pickle.dump(cmd, pr["w"])
                    pr["w"].flush()
                    raised, result = pickle.load(pr["r"])
                    # project real pids to instance names
                    back = {pr2["pid"]: n for n, pr2 in procs.items()}
                    res_name = back.get(result, result) if result is not None else None
                    sim_res = {11: "A", 12: "B"}.get(sim[1], sim[1]) if sim[1] is not None else None
                    real_files = {}
                    for sp, rp in path_map.items():
                        if os.path.exists(rp):
                            c = open(rp, "rb").read()
                            own = w.owner(c)
                            real_files[sp] = back.get(own, "dead" if own == dead_pid else c) if own is not None else c
                    sim_files = {}
                    for sp, c in w.fs.snapshot().items():
                        own = w.owner(c)
                        sim_files[sp] = {11: "A", 12: "B"}.get(own, c) if own is not None else c
                    # a sim file naming a dead instance's pid corresponds to a real file naming a dead pid
                    for sp in list(sim_files):
                        v = sim_files[sp]
                        if v in ("A", "B") and (v not in procs or procs[v].get("dead")):
                            sim_files[sp] = "dead" if real_files.get(sp) == "dead" else v
                            if real_files.get(sp) in (v,):
                                real_files[sp] = sim_files[sp] = v
                    if (raised, res_name) != (sim[0], sim_res) or real_files != sim_files:
                        mismatches.append({"history": [list(o) for o in _ser(hist)], "op": list(_ser([op])[0]),
                                           "sim": [sim[0], sim_res, {k: repr(v) for k, v in sim_files.items()}],
                                           "real": [raised, res_name, {k: repr(v) for k, v in real_files.items()}]})
                        break
            checked += 1
        finally:
            for pr in procs.values():
                try:
                    pr["w"].close()
                    pr["r"].close()
                except Exception:
                    pass
                if not pr.get("dead"):
                    try:
                        os.kill(pr["pid"], signal.SIGKILL)
                        os.waitpid(pr["pid"], 0)
                    except Exception:
                        pass
            shutil.rmtree(d, ignore_errors=True)
    return checked, mismatches


def callsite_part():
    """The arbiter's own use of the pid file (start / reload / promotion / halt), on the same simulated FS:
    histories of the real Arbiter.run() from the C10 and C14 explorations, judged here for the pid-file facts only."""
    from props import c04, c10, c14
    from vlib import simkernel as sk
    viols = {}
    n = 0
    c14.patch_reexec_marker()
    for params in ({"workers": 2, "hup_workers": 2, "term": "now", "bind": "tcp", "timeout": 30},
                   {"workers": 2, "hup_workers": 3, "term": "late", "bind": "unix", "timeout": 30}):
        for script in c10.HUP_SCRIPTS:
            k, o = c10.sim_execute(params, script)
            n += 1
            for fp, text in c10.sim_judge(params, k, o):
                if "pidfile" in fp:
                    viols.setdefault("callsite:reload:" + fp, violation("callsite:reload:" + fp, "history %r: %s" % (script, text), {"callsite": "reload"}))
    for script in ([], [("parent-exit",)], [("parent-killed",)], [("parent-exit",), ("sig", "TERM")], [("sig", "TERM")], [("parent-exit",), ("sig", "USR2")],
                   [("parent-exit-subreaper",)], [("parent-exit-subreaper",), ("sig", "TERM")]):
        params = {"bind": "tcp", "daemon": False}
        k, o = c14.new_execute(params, list(script))
        n += 1
        for fp, text in c14.new_judge(params, k, o):
            if "pidfile" in fp:
                viols.setdefault("callsite:promotion:" + fp, violation("callsite:promotion:" + fp, "new master, history %r: %s" % (script, text), {"callsite": "promotion"}))
    # reload that spells the same pid file differently (./, //, x/..): it is the same file, and the master keeps it
    for alias in ("/run/./app.pid", "/run//app.pid", "/run/sub/../app.pid", "/run/app.pid"):
        c1 = sk.make_cfg(workers=2, timeout=30, graceful_timeout=2, pidfile=c04.PIDFILE, bind=["127.0.0.1:8000"])
        c2 = sk.make_cfg(workers=2, timeout=30, graceful_timeout=2, pidfile=alias, bind=["127.0.0.1:8000"])
        for script in ([("sig", "HUP")], [("sig", "HUP"), ("tick",), ("sig", "HUP")]):
            k = sk.Kernel(script=list(script) + [("tick",)], term="now", settle=1)
            k.fs.dirs.add("/run")
            k.fs.dirs.add("/run/sub")
            o = sk.run_arbiter([c1, c2, c1], k)
            n += 1
            snap = k.fs.snapshot()
            if o.end == "horizon" and snap.get(c04.PIDFILE) != b"%d\n" % k.master_pid:
                fp = "callsite:reload:pidfile-lost-with-alias-spelling"
                viols.setdefault(fp, violation(fp, "history %r, the reloaded configuration spells the pid file %r: the master (pid %d) runs, the file now holds %r" % (
                    list(script), alias, k.master_pid, snap.get(c04.PIDFILE)), {"callsite": "reload-alias"}))
    # a worker whose worker_exit hook fails must not act on the master's pid file (real server, max_requests recycling)
    from props import c18
    v = c18.real_cell(("sync", 2, 0, "sequential+failing-exit-hook-1w", "unix"))
    n += 1
    if v and v[0] in ("pidfile-lost-at-recycle", "master-died"):
        v2 = c18.real_cell(("sync", 2, 0, "sequential+failing-exit-hook-1w", "unix"))
        if v2 and v2[0] == v[0]:
            fp = "callsite:worker-exit:" + v[0]
            viols.setdefault(fp, violation(fp, v[1], {"callsite": "worker-exit"}))
    # halt: the pid file goes when the master has finished stopping, not while it still waits for its workers
    for term in ("now", "late", "never"):
        for sig in ("TERM", "QUIT", "INT"):
            for pre in ([], [("sig", "HUP")], [("sig", "TTIN")]):
                params = {"workers": 2, "timeout": 30, "term": term, "bind": "tcp"}
                k = sk.Kernel(script=list(pre) + [("sig", sig)], term=term, settle=2, late_delay=1.5)
                k.fs.dirs.add("/run")
                seen = []
                orig = k.fs._call

                def spy(name, *a, k=k, seen=seen, orig=orig):
                    stopping = any(t[0] == "log" and t[2].startswith("Handling signal: ") and t[2].split(": ")[1] in ("term", "int", "quit")
                                   for t in k.trace)
                    if stopping and name in ("unlink", "rename") and a and a[0] == c04.PIDFILE:
                        seen.append((name, k.now, [p.pid for p in k.children() if p.alive and p.kind == "worker"]))
                    return orig(name, *a)
                k.fs._call = spy
                o = sk.run_arbiter(c04.sim_cfgs(params), k)
                n += 1
                if o.end != "exit":
                    continue
                for name, now, alive in seen:
                    if alive:
                        fp = "callsite:halt:pidfile-removed-while-workers-alive"
                        viols.setdefault(fp, violation(fp, "history %r, workers exit %s: the master %s its pid file at t=%.2f while its workers %r were still alive "
                                                       "(it went on waiting for them)" % (list(pre) + [("sig", sig)], term, name + "ed", now, alive), {"callsite": "halt"}))
    return list(viols.values()), n


def explore_relative(depth):
    """The same search with a bare relative pid-file name (no directory part): the temporary file and the final name must
    still be in the same directory (here /tmp is another file system than the working directory)."""
    global P, P2
    saved = (P, P2)
    P, P2 = "app.pid", "app.pid.2"
    try:
        return explore(depth)
    finally:
        P, P2 = saved


def run(ctx):
    depth = 7 if ctx.thorough else 6
    st = explore(depth)
    st_rel = explore_relative(4 if ctx.thorough else 3)
    for v in st_rel["viols"]:
        v["fingerprint"] = v["fingerprint"] + ":relative-name"
        v["case"]["relative"] = True
    st["viols"] = list(st["viols"]) + list(st_rel["viols"])
    st["states"] += st_rel["states"]
    st["transitions"] += st_rel["transitions"]
    st["crash_points"] += st_rel["crash_points"]
    cdepth, cap = (4, 1500) if ctx.thorough else (3, 400)
    checked, mism = conformance(cdepth, cap)
    viols = list(st["viols"])
    cviols, ncalls = callsite_part()
    viols += cviols
    if mism:
        # a disagreement between simulated and real file system is a harness problem, not a verdict
        raise AssertionError("simfs conformance failed: %r" % mism[:2])
    cov = {
        "states": st["states"], "transitions": st["transitions"],
        "traces_validated_against_impl": checked,
        "samples": st["samples"] or [[["spawn", "A"], ["create", "A", P]]],
        "crash_points_injected": st["crash_points"], "arbiter_callsite_histories": ncalls,
        "max_depth": st["max_depth"], "depth_bound": depth,
        "exhaustive": True,
        "evaluations": st["transitions"] + st["crash_points"], "distinct_nontrivial": st["states"],
        "rule": "state = (file contents, per instance: alive, Pidfile.fname, Pidfile.pid); transition = one operation of one instance or the environment "
                "(spawn, die, foreign overwrite) executed on the real Pidfile class; every create/rename additionally crashed before each of its system calls",
        "invariants": ["create refuses iff the file names another live process", "content after create is exactly '<pid>\\n'",
                       "crash at any system call: pid path absent / unchanged / complete", "unlink and rename touch only files naming the caller",
                       "no operation destroys a file naming another live process", "validate is read-only and exact", "no temporary file left behind"],
        "conformance": "histories of instances A and B up to depth %d (cap %d) replayed on a real directory with forked helper processes; "
                       "compared: exception, validate result, file contents projected to instance names" % (cdepth, cap),
    }
    return Result("model_checking", cov, viols,
                  ["process death, not power loss: rename is atomic, bytes written before the crash stay written",
                   "operations of different instances do not interleave at system-call level (whole operations are atomic steps)",
                   "pid reuse is modelled by instance C sharing A's pid; it is not replayed on the real kernel"])


def replay(case):
    if "callsite" in case:
        v, _ = callsite_part()
        return v[0] if v else None
    mod = fresh_pidfile_module()
    hist = _deser(case["history"])
    if case.get("relative"):
        global P, P2
        P, P2 = "app.pid", "app.pid.2"
    w, bad = replay_history(mod, hist, crash_at=case.get("crash_at"))
    if bad:
        return violation(bad[0][0], bad[0][1], case)
    return None
