"""C11 - hung workers are killed and replaced; healthy workers never are.

Assume/guarantee composition in exact virtual time:
(1) worker side: the REAL main loops (SyncWorker.run_for_one / run_for_multiple, ThreadWorker.run,
    GeventWorker.run, EventletWorker.run) executed under a virtual clock (blocking calls cost their
    timeout, each loop iteration 1 ms) for every activity pattern of a healthy worker; measured:
    the maximum gap G between consecutive heartbeats.  Guarantee needed by the master: G <= timeout.
(2) master side: the REAL Arbiter in the simulated kernel with workers that heartbeat with gap G at
    every phase (50 ms grid) relative to the master's scan, or are hung from T0 (blocked app /
    stopped / ignoring ABRT): no ABRT/KILL for healthy workers ever; a hung one gets ABRT within
    timeout + 2 scans, KILL one scan later if still alive, is reaped and replaced, others untouched;
    also across a reload that changes the timeout.
(3) real processes: a worker blocked in the application / SIGSTOPped is replaced within
    timeout + 4 s for every worker class, idle workers are left alone."""
import errno
import os
import random
import signal
import time

from vlib import par, realproc as rp, simkernel as sk
from vlib.runner import Result, violation

EPS = 0.001
TIMEOUTS = (1, 2, 3, 5, 30)


class Clock:
    def __init__(self):
        self.now = 0.0


class RecTmp:
    def __init__(self, clock):
        self.clock = clock
        self.notes = []

    def notify(self):
        self.notes.append(self.clock.now)

    def close(self):
        pass

    def fileno(self):
        return -1


class QuietLog:
    def __getattr__(self, name):
        return lambda *a, **k: None


# ---------------------------------------------------------------- (1) worker loops ---------------

def max_gap(notes, end):
    # the heartbeat file is stamped when the worker is created (t=0): the stretch before the first notify counts
    pts = [0.0] + list(notes) + [end]
    return max((b - a for a, b in zip(pts, pts[1:])), default=0.0)


_HANDED = {}


def handed_timeout(T):
    """The wait bound a worker of a master configured with timeout=T is constructed with: taken from the real
    Arbiter.setup()/spawn_worker() (run under the simulated kernel), not assumed to be T/2."""
    if T not in _HANDED:
        k = sk.Kernel(script=[("tick",)], term="now", settle=0)
        sk.run_arbiter([sk.make_cfg(workers=1, timeout=T, graceful_timeout=2)], k)
        _HANDED[T] = k.worker_objs[0].timeout
    return _HANDED[T]


def measure_sync(T, pattern, multi=False):
    """pattern: list of (arrival_time, duration) of connections; returns (G, number of notifies)."""
    import gunicorn.workers.sync as S
    from vlib import gparse
    clock = Clock()
    cfg = gparse.make_cfg()
    # pattern entries: (arrival, duration) on the first listener or (arrival, duration, listener index)
    arrivals = sorted((a[0], a[1], a[2] if len(a) > 2 else 0) for a in pattern)
    horizon = (arrivals[-1][0] + arrivals[-1][1] if arrivals else 0) + 3 * T + 1

    class Listener:
        def accept(self_):
            me = listeners.index(self_)
            for i, a in enumerate(arrivals):
                if a[0] <= clock.now + 1e-9 and a[2] == me:
                    arrivals.pop(i)
                    return ("client", a[1]), ("127.0.0.1", 1)
            raise BlockingIOError(errno.EAGAIN, "no connection")

        def setblocking(self_, v):
            pass

        def getsockname(self_):
            return ("127.0.0.1", 8000)

    listeners = [Listener()] + ([Listener()] if multi else [])

    class W(S.SyncWorker):
        def accept(self, listener):
            client, addr = listener.accept()
            clock.now += client[1]          # the request takes `duration`
            clock.now += EPS

    class Sel:
        error = OSError

        @staticmethod
        def select(r, w, x, timeout=None):
            clock.now += EPS
            if clock.now >= horizon:
                wk.alive = False
            def ready():
                return [l for i, l in enumerate(listeners) if any(a[0] <= clock.now + 1e-9 and a[2] == i for a in arrivals)]
            if ready():
                return (ready(), [], [])
            nxt = arrivals[0][0] if arrivals else None
            if nxt is not None and nxt < clock.now + timeout:
                clock.now = nxt
                return (ready(), [], [])
            clock.now += timeout
            if clock.now >= horizon:
                wk.alive = False
            return ([], [], [])

    saved = S.select
    S.select = Sel
    try:
        wk = W(1, os.getppid(), listeners, None, handed_timeout(T), cfg, QuietLog())
        wk.tmp.close()
        wk.tmp = RecTmp(clock)
        wk.PIPE = (-1, -2)
        wk.wait_fds = listeners + [-1]
        if multi:
            wk.run_for_multiple(wk.timeout)
        else:
            wk.run_for_one(wk.timeout)
    finally:
        S.select = saved
    return max_gap(wk.tmp.notes, clock.now), len(wk.tmp.notes)


def measure_gthread(T, at_capacity):
    import gunicorn.workers.gthread as G
    from vlib import gparse
    clock = Clock()
    horizon = 3 * T + 4

    class Poller:
        def register(self, *a):
            pass

        def unregister(self, *a):
            pass

        def select(self, timeout):
            clock.now += timeout + EPS
            return []

        def close(self):
            pass

    class Fut:
        @staticmethod
        def wait(fs, timeout=None, return_when=None):
            import collections
            R = collections.namedtuple("R", "done not_done")
            pending = [f for f in fs]
            if pending and timeout and return_when is not None:      # (the final wait after the loop is not part of it)
                clock.now += timeout + EPS
            return R(set(), set(pending))
        FIRST_COMPLETED = "FIRST_COMPLETED"

    class T_:
        @staticmethod
        def time():
            return clock.now

    class Pool:
        def shutdown(self, wait=True):
            pass

    saved = (G.futures, G.time)
    G.futures, G.time = Fut, T_
    try:
        cfg = gparse.make_cfg(worker_connections=2, threads=1)

        class W(G.ThreadWorker):
            def is_parent_alive(self):
                if clock.now >= horizon:
                    self.alive = False
                return True

        wk = W(1, os.getppid(), [], None, handed_timeout(T), cfg, QuietLog())
        wk.tmp.close()
        wk.tmp = RecTmp(clock)
        wk.poller = Poller()
        wk.tpool = Pool()
        import threading
        wk._lock = threading.RLock()
        if at_capacity:
            wk.nr_conns = wk.worker_connections
            wk.futures.append(object())
        wk.run()
    finally:
        G.futures, G.time = saved
    return max_gap(wk.tmp.notes, clock.now), len(wk.tmp.notes)


def _measure_async(args):
    """Runs in a forked child: importing gevent/eventlet must not leak into the checker."""
    kind, T = args
    from vlib import gparse
    clock = Clock()
    horizon = 3 * T + 4
    cfg = gparse.make_cfg()
    state = {}

    def vsleep(d=0):
        clock.now += d + EPS
        if clock.now >= horizon:
            state["w"].alive = False

    if kind == "gevent":
        import gunicorn.workers.ggevent as M

        class Stub:
            sleep = staticmethod(vsleep)

            def __getattr__(self, n):
                return getattr(state["real"], n)
        state["real"] = M.gevent
        saved = M.gevent
        M.gevent = Stub()
        try:
            wk = M.GeventWorker(1, os.getppid(), [], None, handed_timeout(T), cfg, QuietLog())
            state["w"] = wk
            wk.tmp.close()
            wk.tmp = RecTmp(clock)
            wk.run()
        finally:
            M.gevent = saved
    else:
        import gunicorn.workers.geventlet as M

        class TO:
            def __init__(self, *a):
                pass

            def __enter__(self):
                return self

            def __exit__(self, *a):
                return False

        class Stub:
            sleep = staticmethod(vsleep)
            Timeout = TO

            def __getattr__(self, n):
                return getattr(state["real"], n)
        state["real"] = M.eventlet
        saved = M.eventlet
        M.eventlet = Stub()
        try:
            wk = M.EventletWorker(1, os.getppid(), [], None, handed_timeout(T), cfg, QuietLog())
            state["w"] = wk
            wk.tmp.close()
            wk.tmp = RecTmp(clock)
            wk.run()
        finally:
            M.eventlet = saved
    notes = wk.tmp.notes
    return max_gap(notes, clock.now), len(notes)


def sync_patterns(T):
    """healthy activity patterns: every request shorter than the timeout"""
    P = {"idle": []}
    for d in (0.0, T / 2.0, T - 0.1):
        P["one-request-%.2f" % d] = [(0.5, d)]
        P["spaced-%.2f" % d] = [(i * (d + 0.7), d) for i in range(4)]
        # back to back: the next connection is always already waiting when a request ends
        P["back-to-back-%.2f" % d] = [(0.0 + i * 0.01, d) for i in range(6)]
    return P


def worker_side(thorough):
    """Returns (gaps {class: {T: G}}, violations, cases)."""
    viols = {}
    gaps = {}
    n = 0
    for T in TIMEOUTS:
        for multi in (False, True):
            cls = "sync" + ("-multi" if multi else "")
            worst = 0.0
            pats = dict(sync_patterns(T))
            if multi:
                # clients pending on BOTH listeners when the worker wakes up: each request shorter than the timeout
                for d in (T / 2.0, T - 0.1):
                    pats["both-listeners-%.2f" % d] = [(0.5, d, 0), (0.5, d, 1)]
                    pats["both-listeners-repeated-%.2f" % d] = [(0.5 + i * (2 * d + 0.3), d, j) for i in range(3) for j in (0, 1)]
                    pats["second-listener-only-%.2f" % d] = [(0.5, d, 1), (0.5 + d + 0.2, d, 1)]
            for name, pat in pats.items():
                G, cnt = measure_sync(T, pat, multi)
                n += 1
                worst = max(worst, G)
                longest = max([a[1] for a in pat], default=0.0)
                if G > T + 1e-9:
                    fp = "heartbeat-gap-exceeds-timeout:%s:%s" % (cls, name.split("-")[0] + ("-" + name.split("-")[1] if name.startswith("back") else ""))
                    viols.setdefault(fp, violation("worker:" + fp, "%s worker, timeout=%d, pattern %s (requests of at most %.2f s): %.3f s between two heartbeats" % (
                        cls, T, name, longest, G), {"part": "worker", "cls": cls, "T": T, "pattern": name}))
            gaps.setdefault(cls, {})[T] = round(worst, 4)
        for cap in (False, True):
            G, cnt = measure_gthread(T, cap)
            n += 1
            gaps.setdefault("gthread", {})[T] = max(gaps.get("gthread", {}).get(T, 0), round(G, 4))
            if G > T + 1e-9:
                fp = "heartbeat-gap-exceeds-timeout:gthread"
                viols.setdefault(fp + ":T=%d" % T, violation("worker:" + fp + ":timeout=%d" % T, "gthread worker (%s), timeout=%d: %.3f s between two heartbeats of an idle, healthy worker" % (
                    "at capacity" if cap else "idle", T, G), {"part": "worker", "cls": "gthread", "T": T, "cap": cap}))
    res = par.pmap(_measure_async, [(k, T) for k in ("gevent", "eventlet") for T in TIMEOUTS], jobs=5)
    i = 0
    for kind in ("gevent", "eventlet"):
        for T in TIMEOUTS:
            G, cnt = res[i]
            i += 1
            n += 1
            gaps.setdefault(kind, {})[T] = round(G, 4)
            if G > T + 1e-9:
                fp = "heartbeat-gap-exceeds-timeout:%s" % kind
                viols.setdefault(fp + ":T=%d" % T, violation("worker:" + fp + ":timeout=%d" % T, "%s worker, timeout=%d: %.3f s between two heartbeats of an idle, healthy worker" % (kind, T, G),
                                                             {"part": "worker", "cls": kind, "T": T}))
    return gaps, list(viols.values()), n


# ---------------------------------------------------------------- (2) master side ----------------

class HBKernel(sk.Kernel):
    """Workers heartbeat with a fixed gap (or with the timeout the arbiter handed them) from a phase."""

    def __init__(self, gap_mode, gap, phase, **kw):
        super().__init__(**kw)
        self.gap_mode, self.gap, self.phase = gap_mode, gap, phase

    after = None          # for gap_mode "fixed-after": only workers born at/after this time use the fixed gap

    def heartbeat_of(self, p):
        gap = self.gap
        if self.gap_mode == "worker-timeout" and p.obj is not None:
            gap = p.obj.timeout + EPS
        if self.gap_mode == "fixed-after" and (self.after is None or p.born_at < self.after - 1e-9):
            return self.now
        if gap <= 0:
            return self.now
        t0 = p.born_at - self.phase          # heartbeats at t0 + n*gap; the worker notified right when it booted
        n = int((self.now - t0) / gap + 1e-9)
        return max(p.born_at, t0 + n * gap)


def master_run(T, gap_mode, gap, phase, script, abrt="die", workers=2, cfg2_timeout=None, after=None, inject=None):
    c0 = sk.make_cfg(workers=workers, timeout=T, graceful_timeout=2)
    c1 = sk.make_cfg(workers=workers, timeout=cfg2_timeout if cfg2_timeout is not None else T, graceful_timeout=2)
    k = HBKernel(gap_mode, gap, phase, script=script, term="now", abrt=abrt, settle=0, inject=inject)
    k.after = after
    o = sk.run_arbiter([c0, c1, c1], k)
    return k, o


def master_cell(cell):
    kind = cell[0]
    bad = []
    if kind == "healthy":
        _, T, gap_mode, gap, phase, label = cell
        ticks = int(2 * T + 6) if T < 30 else 40
        k, o = master_run(T, gap_mode, gap, phase, [("tick",)] * ticks)
        hostile = [x for x in k.kills if x[2] in (signal.SIGABRT, signal.SIGKILL)]
        if hostile:
            bad.append(("false-kill:%s:gap-%s-timeout" % (label, "within" if gap <= T + 1e-9 else "exceeds"),
                        "timeout=%d, healthy worker heartbeating every %.3f s (phase %.2f): master sent signal %d at t=+%.2f" % (
                            T, gap if gap_mode == "fixed" else T / 2.0, phase, hostile[0][2], hostile[0][0] - 1000.0)))
        if o.end != "horizon":
            bad.append(("master-stopped", "%s %s" % (o.end, o.exc)))
    elif kind == "hung":
        _, T, hang_kind, phase = cell
        pre = 2
        ticks = T + 6
        script = [("tick",)] * pre + [("hang", 0, hang_kind)] + [("tick",)] * ticks
        k, o = master_run(T, "fixed", 0.0, phase, script, abrt="die")
        t0 = 1000.0 + pre
        victim = 101
        abrts = [x for x in k.kills if x[1] == victim and x[2] == signal.SIGABRT]
        kills = [x for x in k.kills if x[1] == victim and x[2] == signal.SIGKILL]
        others = [x for x in k.kills if x[1] != victim and x[2] in (signal.SIGABRT, signal.SIGKILL)]
        if others:
            bad.append(("healthy-worker-killed-next-to-hung-one", "signal %d sent to worker %d which is not hung" % (others[0][2], others[0][1])))
        if not abrts:
            bad.append(("hung-worker-not-aborted:%s" % hang_kind, "timeout=%d: no SIGABRT for the worker hung since t0 within %d s" % (T, ticks)))
        else:
            delay = abrts[0][0] - t0
            if delay > T + 2.0 + 1e-6:
                bad.append(("hung-worker-aborted-late", "timeout=%d: SIGABRT %.2f s after the hang" % (T, delay)))
            if delay < T - 1e-6:
                bad.append(("hung-worker-aborted-early", "timeout=%d: SIGABRT only %.2f s after the last heartbeat" % (T, delay)))
        dead = victim not in k.procs or not k.procs[victim].alive
        if hang_kind in ("stopped", "ignore-abrt"):
            if not kills:
                bad.append(("hung-worker-not-killed:%s" % hang_kind, "timeout=%d: the worker ignores SIGABRT and was never sent SIGKILL (%d SIGABRT sent)" % (T, len(abrts))))
            elif abrts and kills[0][0] - abrts[0][0] > 1.0 + 1e-6:
                bad.append(("kill-escalation-late", "SIGKILL %.2f s after SIGABRT" % (kills[0][0] - abrts[0][0])))
        if (abrts or kills) and not dead:
            bad.append(("hung-worker-survives:%s" % hang_kind, "the hung worker is still alive at the horizon"))
        if dead:
            live = [p for p in k.children() if p.alive and p.kind == "worker"]
            if len(live) != 2 or victim in dict.keys(o.arbiter.WORKERS):
                bad.append(("hung-worker-not-replaced", "after the kill: %d live workers, tracked %r" % (len(live), sorted(dict.keys(o.arbiter.WORKERS)))))
    elif kind == "hung-busy-master":
        # the master never sleeps a full second: something wakes it up every `period` s while a worker hangs
        _, T, wake, period = cell
        pre = 2
        n = int((T + 6) / period)
        wake_ev = ("sig", "USR1") if wake == "usr1" else ("sig", "TTIN") if wake == "ttin-ttou" else ("exit", 1, 9)
        script = [("tick",)] * pre + [("hang", 0, "app")]
        for i in range(n):
            ev = wake_ev
            if wake == "ttin-ttou" and i % 2:
                ev = ("sig", "TTOU")
            script.append((("pass", period), ev))
        k, o = master_run(T, "fixed", 0.0, 0.0, script, abrt="die", workers=2)
        t0 = 1000.0 + pre
        abrts = [x for x in k.kills if x[1] == 101 and x[2] == signal.SIGABRT]
        if o.end != "horizon":
            bad.append(("master-stopped", "%s %s" % (o.end, o.exc)))
        elif not abrts:
            bad.append(("hung-worker-not-aborted:master-woken-every-%.1fs" % period, "timeout=%d: the master is woken every %.1f s (%s) and never sent SIGABRT to the worker hung for %.1f s" % (
                T, period, wake, n * period)))
        elif abrts[0][0] - t0 > T + 2.0 + 1e-6:
            bad.append(("hung-worker-aborted-late:master-woken-every-%.1fs" % period, "timeout=%d: SIGABRT %.2f s after the hang" % (T, abrts[0][0] - t0)))
        elif abrts[0][0] - t0 < T - 1e-6:
            bad.append(("hung-worker-aborted-early", "timeout=%d: SIGABRT only %.2f s after the last heartbeat" % (T, abrts[0][0] - t0)))
    elif kind == "clock-step":
        # the wall clock is stepped while healthy workers idle and while one worker hangs
        _, T, step = cell
        script = [("tick",)] * 2 + [("clock-step", step)] + [("tick",)] * (T + 2) + [("hang", 0, "app"), ("clock-step", -step)] + [("tick",)] * (T + 6)
        k, o = master_run(T, "worker-timeout", 0.0, 0.0, script, abrt="die", workers=2)
        t_hang = 1000.0 + 2 + T + 2
        early = [x for x in k.kills if x[2] in (signal.SIGABRT, signal.SIGKILL) and x[0] < t_hang + T - 1e-6]
        late = [x for x in k.kills if x[1] == 101 and x[2] == signal.SIGABRT and x[0] >= t_hang]
        if early:
            bad.append(("false-kill:wall-clock-step", "timeout=%d, wall clock stepped by %+d s at t=+2: signal %d to worker %d at t=+%.2f although every worker was healthy" % (
                T, step, early[0][2], early[0][1], early[0][0] - 1000.0)))
        elif not late:
            bad.append(("hung-worker-not-aborted:wall-clock-step", "timeout=%d: wall clock stepped by %+d s right after a worker hung; no SIGABRT within %d s" % (T, -step, T + 6)))
        elif late[0][0] - t_hang > T + 2.0 + 1e-6:
            bad.append(("hung-worker-aborted-late:wall-clock-step", "SIGABRT %.2f s after the hang" % (late[0][0] - t_hang)))
    elif kind == "reload":
        _, T1, T2, phase = cell
        ticks = int(max(T1, T2) + 4)
        script = [("tick",)] * 2 + [("sig", "HUP")] + [("tick",)] * ticks
        k, o = master_run(T1, "worker-timeout", 0.0, phase, script, cfg2_timeout=T2)
        hostile = [x for x in k.kills if x[2] in (signal.SIGABRT, signal.SIGKILL)]
        if hostile:
            bad.append(("false-kill:after-reload-changing-timeout", "timeout %d -> %d by HUP, idle sync-like workers (heartbeat every timeout/2 as handed to them): signal %d at t=+%.2f" % (
                T1, T2, hostile[0][2], hostile[0][0] - 1000.0)))
    elif kind == "reload-busy":
        # after a HUP that changes the timeout, a worker that is healthy under the NEW timeout (busy, heartbeat every T2 - 0.1 s)
        _, T1, T2, phase = cell
        ticks = int(T2 + 6)
        script = [("tick",)] * 2 + [("sig", "HUP")] + [("tick",)] * ticks
        k, o = master_run(T1, "fixed-after", T2 - 0.1 + EPS, phase, script, cfg2_timeout=T2, after=1002.0)
        hostile = [x for x in k.kills if x[2] in (signal.SIGABRT, signal.SIGKILL)]
        if hostile:
            bad.append(("false-kill:busy-worker-after-reload-changing-timeout", "timeout %d -> %d by HUP; a worker of the new generation handling requests of %.1f s (shorter than "
                        "the new timeout) got signal %d at t=+%.2f" % (T1, T2, T2 - 0.1, hostile[0][2], hostile[0][0] - 1000.0)))
    elif kind == "reload-hung":
        # after a HUP that LOWERS the timeout, a worker that hangs must be aborted within the new timeout
        _, T1, T2, phase = cell
        script = [("tick",)] * 2 + [("sig", "HUP")] + [("tick",)] * 2 + [("hang", 0, "app")] + [("tick",)] * (T2 + 5)
        k, o = master_run(T1, "fixed", 0.0, phase, script, cfg2_timeout=T2)
        t0 = 1004.0
        abrts = [x for x in k.kills if x[2] == signal.SIGABRT]
        if not abrts:
            bad.append(("hung-worker-not-aborted:after-reload-lowering-timeout", "timeout %d -> %d by HUP: a worker hung after the reload was not aborted within %d s" % (T1, T2, T2 + 5)))
        elif abrts[0][0] - t0 > T2 + 2.0 + 1e-6:
            bad.append(("hung-worker-aborted-late:after-reload", "SIGABRT %.2f s after the hang, new timeout %d" % (abrts[0][0] - t0, T2)))
    elif kind == "scan-race":
        # a healthy worker exits (and is reaped by the SIGCHLD handler) at every delivery point of the scans that deal with a hung one
        _, T = cell
        script = [("tick",)] * 2 + [("hang", 0, "ignore-abrt")] + [("tick",)] * (T + 4)
        k0, o0 = master_run(T, "fixed", 0.0, 0.0, script, workers=3)
        start = k0.quiescent_points[2] if len(k0.quiescent_points) > 2 else 0
        # the base run has ~100 delivery points; a master gone wild (kill / respawn storm) has thousands: the first 400 are
        # enough to show what is wrong, and the check stays bounded
        for idx in range(start, min(k0.npoints, start + 400)):
            for ev in (("exit", 1, 0), ("exit", 2, 9)):
                k, o = master_run(T, "fixed", 0.0, 0.0, script, workers=3, inject={idx: ev})
                label = k.point_labels[idx] if idx < len(k.point_labels) else "?"
                if o.end != "horizon" or any(t[0] == "log" and "Unhandled exception" in t[2] for t in k.trace):
                    bad.append(("master-crashed-during-timeout-scan", "a worker exiting at delivery point %s while the master deals with a hung one: run() ended with %s %s" % (
                        label, o.end, o.exc or o.code)))
                    break
            if bad:
                break
    return {"cell": cell, "bad": bad}


def tmp_roundtrip():
    """The heartbeat file itself: what last_update() reports must be the time notify() recorded."""
    import gunicorn.workers.workertmp as WT
    from vlib import gparse
    bad = []
    n = 0

    class T_:
        now = 0.0

        @staticmethod
        def monotonic():
            return T_.now

        @staticmethod
        def monotonic_ns():
            return int(round(T_.now * 1e9))

        @staticmethod
        def time_ns():
            return int(round((T_.now + 1700000000.0) * 1e9))

        @staticmethod
        def time():
            # the wall clock is a different clock (and can be stepped): the protocol is defined on the monotonic one
            return T_.now + 1700000000.0
    saved = WT.time
    WT.time = T_
    try:
        t = WT.WorkerTmp(gparse.make_cfg())
        try:
            for base in (1000.0, 123456.0):
                for i in range(20):
                    T_.now = base + i * 0.05
                    t.notify()
                    got = t.last_update()
                    n += 1
                    if abs(got - (T_.now + 1700000000.0)) < 1.0:
                        bad.append(("heartbeat-stamped-with-wall-clock", "notify() at monotonic time %.3f (wall clock %.3f): last_update() reports %.3f - a stepped wall clock "
                                    "would make a healthy worker look hung or a hung one look alive" % (T_.now, T_.now + 1700000000.0, got)))
                        return bad, n
                    if abs(got - T_.now) > 1e-3:
                        bad.append(("heartbeat-timestamp-inexact", "notify() at monotonic time %.3f, last_update() reports %.3f: the worker looks %.3f s more silent than it is" % (
                            T_.now, got, T_.now - got)))
                        return bad, n
        finally:
            t.close()
    finally:
        WT.time = saved
    return bad, n


def master_cells(gaps, thorough):
    cells = []
    phases = [i * 0.05 for i in range(0, 21)] if thorough else [i * 0.05 for i in range(0, 21, 2)]
    for T in TIMEOUTS:
        for ph in phases:
            # idle sync worker: heartbeat every timeout/2 (as handed over by the arbiter)
            cells.append(("healthy", T, "worker-timeout", 0.0, ph, "sync"))
            for cls in ("gthread", "gevent", "eventlet"):
                G = gaps.get(cls, {}).get(T)
                if G:
                    cells.append(("healthy", T, "fixed", G, ph, cls))
            # busiest healthy sync worker: one request of timeout - 0.1 s after the other
            cells.append(("healthy", T, "fixed", T - 0.1 + EPS, ph, "sync-busy"))
    for T in (1, 2, 3, 5):
        for hk in ("app", "stopped", "ignore-abrt"):
            for ph in (0.0, 0.5):
                cells.append(("hung", T, hk, ph))
    for (a, b) in ((2, 30), (30, 2), (2, 5), (1, 3)):
        for ph in (0.0, 0.45):
            cells.append(("reload", a, b, ph))
    for (a, b) in ((2, 30), (2, 5), (1, 3)):
        cells.append(("reload-busy", a, b, 0.0))
    for (a, b) in ((30, 2), (5, 2), (30, 1)):
        cells.append(("reload-hung", a, b, 0.0))
    for T in ((1, 2, 3) if thorough else (2,)):
        cells.append(("scan-race", T))
    for T in (2, 5):
        for step in (3600, -3600, 30, -30):
            cells.append(("clock-step", T, step))
    for T in (1, 2, 3, 5):
        for wake in ("usr1", "sibling-exit", "ttin-ttou"):
            for period in ((0.5, 0.3, 0.9) if thorough else (0.5,)):
                cells.append(("hung-busy-master", T, wake, period))
    return cells


# ---------------------------------------------------------------- (3) real processes -------------

def real_cell(cell):
    wc, scenario = cell
    T = 2
    s = rp.Server(worker_class=wc, workers=2, bind="unix", graceful_timeout=2, timeout=T, threads=2 if wc == "gthread" else None)
    try:
        if not s.start():
            return ("infrastructure", "server did not start")
        time.sleep(0.4)
        ws = s.workers()
        if len(ws) != 2:
            return ("infrastructure", "expected 2 workers, got %r" % ws)
        if scenario == "idle":
            time.sleep(3 * T + 1)
            if set(s.workers()) != set(ws) or "WORKER TIMEOUT" in s.log_text():
                return ("idle-worker-killed", "idle workers %r -> %r; log: %s" % (sorted(ws), sorted(s.workers()), [l for l in s.log_text().splitlines() if "TIMEOUT" in l][:2]))
            return None
        if scenario == "blocked-app":
            if wc in ("gevent", "eventlet", "gthread"):
                # one blocked request does not stop a concurrent worker from making progress (its main loop keeps
                # serving and heartbeating); a stopped process does (next scenario)
                return "skip"
            c = s.connect()
            c.sendall(b"GET /hang HTTP/1.1\r\nHost: h\r\n\r\n")
            time.sleep(0.3)
            victim = None
        else:
            victim = ws[0]
            os.kill(victim, signal.SIGSTOP)
        t0 = time.time()
        end = t0 + T + 6
        replaced = None
        while time.time() < end:
            now = set(s.workers())
            gone = set(ws) - now
            if gone and len(now) >= 2 and (victim is None or victim in gone):
                replaced = time.time() - t0
                break
            time.sleep(0.1)
        if replaced is None:
            return ("hung-worker-not-replaced:%s" % scenario, "%.0f s after the hang the workers are %r (were %r); log: %s" % (
                time.time() - t0, sorted(s.workers()), sorted(ws), [l for l in s.log_text().splitlines() if "TIMEOUT" in l][:3]))
        # the rest of the server keeps serving
        try:
            c2 = s.connect()
            c2.sendall(b"GET /plain HTTP/1.1\r\nHost: h\r\nConnection: close\r\n\r\n")
            head, body, complete, closed = rp.read_response(c2, 5)
            c2.close()
            if not complete:
                return ("server-not-serving-after-replacement", "no reply after the hung worker was replaced")
        except OSError as e:
            return ("server-not-serving-after-replacement", repr(e))
        return None
    finally:
        for p, _ in rp.session_members(s.proc.pid) if s.proc else []:
            try:
                os.kill(p, signal.SIGCONT)
            except OSError:
                pass
        s.cleanup()


def run(ctx):
    gaps, wviols, wcases = worker_side(ctx.thorough)
    tbad, tn = tmp_roundtrip()
    wcases += tn
    for fp, text in tbad:
        wviols.append(violation("worker:" + fp, text, {"part": "tmp"}))
    mcells = master_cells(gaps, ctx.thorough)
    mres = par.pmap(master_cell, mcells, chunksize=4)
    viols = {v["fingerprint"]: v for v in wviols}
    for r in mres:
        for fp, text in r["bad"]:
            key = "master:" + fp
            if r["cell"][0] == "healthy":
                key += ":timeout=%d" % r["cell"][1] if "exceeds" in fp else ""
            if key not in viols:
                viols[key] = violation(key, "%r: %s" % (r["cell"], text), {"part": "master", "cell": list(r["cell"])})
    rcells = [(wc, sc) for wc in ("sync", "gthread", "gevent", "eventlet") for sc in ("idle", "blocked-app", "stopped")]
    order = list(rcells)
    random.Random(ctx.seed).shuffle(order)
    rres = par.pmap(real_cell, order, jobs=12)
    unconfirmed = []
    infra = 0
    for cell, v in zip(order, rres):
        if v is None or v == "skip":
            continue
        v2 = real_cell(cell)
        if v2 is None or v2 == "skip" or v2[0] != v[0]:
            unconfirmed.append({"cell": list(cell), "first": v[0]})
            continue
        if v[0] == "infrastructure":
            infra += 1
            continue
        key = "real:%s:%s" % (v[0], cell[0])
        viols.setdefault(key, violation(key, "worker=%s scenario=%s: %s" % (cell[0], cell[1], v[1]), {"part": "real", "cell": list(cell)}))
    states = len(mcells)
    cov = {
        "states": states, "transitions": sum(int(2 * c[1] + 6) if c[0] == "healthy" else 10 for c in mcells),
        "traces_validated_against_impl": len(rcells),
        "samples": [{"worker_loop": "sync back-to-back requests of timeout-0.1 s", "max_gap": gaps.get("sync", {})},
                    {"master": ["hung", 2, "stopped", 0.5]}, {"real": ["gevent", "stopped"]}],
        "evaluations": wcases + len(mcells) + len(rcells), "distinct_nontrivial": wcases + len(mcells),
        "rule": "worker side: every (worker class, timeout in %r, activity pattern) runs the real main loop under a virtual clock; master side: every (timeout, heartbeat gap "
                "of a class, phase on a 50 ms grid) healthy cell, every (timeout, kind of hang, phase) hung cell and every timeout-changing reload cell runs the real "
                "Arbiter in the simulated kernel; real: (class, idle / blocked application / stopped process)" % (TIMEOUTS,),
        "max_heartbeat_gap_per_class_and_timeout": gaps,
        "worker_loop_cases": wcases, "master_cells": len(mcells), "real_cells": len(rcells),
        "real_unconfirmed": unconfirmed, "real_infrastructure_failures": infra,
        "exhaustive": True,
    }
    return Result("model_checking", cov, list(viols.values()),
                  ["virtual time: a blocking call costs exactly its timeout, a loop iteration 1 ms; phases are enumerated on a 50 ms grid",
                   "composition: a healthy worker is one whose heartbeat gap is what the real loop produced in (1); the master is then checked against every such heartbeat source",
                   "real-process cells confirm the simulated verdicts on the four real worker classes with wall-clock bounds (timeout + 6 s)"])


def replay(case):
    if case["part"] == "real":
        v = real_cell(tuple(case["cell"]))
        return violation("real:%s:%s" % (v[0], case["cell"][0]), v[1], case) if v and v != "skip" else None
    if case["part"] == "master":
        r = master_cell(tuple(case["cell"]))
        return violation("master:" + r["bad"][0][0], r["bad"][0][1], case) if r["bad"] else None
    if case["part"] == "tmp":
        tb, _ = tmp_roundtrip()
        return violation("worker:" + tb[0][0], tb[0][1], case) if tb else None
    gaps, wv, _ = worker_side(False)
    return wv[0] if wv else None
