"""C05 - hostile or broken input is contained: error reply, no app call, worker lives.

Decides by: every truncation (prefix at every offset) of seed streams x client ending (half-close,
close, reset, reset between the server's read and its reply), every single-byte substitution and
insertion from a 14-byte alphabet at every offset, and the must-reject framing corpus of C01,
through the real handle() of all three in-process workers and for TCP and unix-socket peers; the
same worker object then serves a plain request.  Oracle: application call counter vs responses,
strict reader of the error reply, server-side close, no escaping exception, worker alive."""
import os
import random

from vlib import bench, par, rfc_request, rfc_response
from vlib.runner import Result, violation
from props import c01

NEXT = c01.NEXT
SEEDS = [
    b"GET /a?b=c HTTP/1.1\r\nHost: x\r\nAccept: */*\r\n\r\n",
    b"POST /p HTTP/1.1\r\nHost: x\r\nContent-Length: 5\r\n\r\nhello",
    b"POST /c HTTP/1.1\r\nTransfer-Encoding: chunked\r\n\r\n3;x=y\r\nabc\r\n1\r\nd\r\n0\r\nT: 1\r\n\r\n",
    b"GET /1 HTTP/1.1\r\nHost: x\r\n\r\nGET /2 HTTP/1.1\r\nHost: x\r\nConnection: close\r\n\r\n",
    b"GET /old HTTP/1.0\r\nConnection: keep-alive\r\nX-A: b\r\n\r\n",
    b"PUT /u HTTP/1.1\r\nContent-Length: 2\r\nX_Under: 1\r\nX-Forwarded-Proto: https\r\n\r\nhi",
    b"OPTIONS * HTTP/1.1\r\nHost: x\r\n\r\n",
    b"GET http://h/abs HTTP/1.1\r\nHost: h\r\nAuthorization: Basic dTpw\r\n\r\n",
]
PROXY_SEED = b"PROXY TCP4 10.0.0.1 10.0.0.2 1111 80\r\nGET /p HTTP/1.1\r\nHost: x\r\n\r\n"
ALPHABET = [b"\x00", b"\r", b"\n", b" ", b"\t", b":", b";", b"\x7f", b"\x80", b"\xff", b"a", b"0", b"\xe9", b",",
            b"{", b"}", b"%"]       # characters that mean something to str.format / % when rejected text is echoed or logged
PLAIN = b"GET /plain HTTP/1.1\r\nHost: ok\r\n\r\n"
PEER_TCP = ("127.0.0.1", 40000)
PEER_TCP6 = ("::1", 40000, 0, 0)         # what accept() returns on an AF_INET6 listener
PEERS = {"tcp": PEER_TCP, "tcp6": PEER_TCP6, "unix": ""}


class App:
    def __init__(self):
        self.calls = []

    def __call__(self, environ, start_response):
        rec = [environ["REQUEST_METHOD"], environ["RAW_URI"], None]
        self.calls.append(rec)
        body = environ["wsgi.input"].read()
        rec[2] = body
        out = b"ok:" + str(len(body)).encode()
        start_response("200 OK", [("Content-Length", str(len(out)))])
        return [out]


def judge(data, ending, o, calls, proxy_mode):
    """Returns (fingerprint, text) or None."""
    if o.exc:
        return "exception-escaped-handle", "handle() raised %s" % o.exc
    if o.close_calls < 1:
        return "server-did-not-close", "handle() returned without closing the client socket"
    if o.use_after_close:
        return "socket-used-after-close", "%r after close" % o.use_after_close
    if not o.alive:
        return "worker-stopped", "worker.alive is False after the connection"
    # requests the strict reference accepts as complete (head-level)
    oms = rfc_request.read_stream(data, proxy_protocol=proxy_mode)
    acceptable = 0
    for m in oms:
        if m.verdict in ("F", "D"):
            acceptable += 1
        else:
            if m.verdict == "NOREAD":
                acceptable = None
            break
    if acceptable is not None and len(calls) > acceptable:
        return "app-called-for-unacceptable-request", "%d application calls, the strict reading has %d acceptable request(s): calls %r" % (
            len(calls), acceptable, [c[:2] for c in calls])
    if ending not in ("halfclose", "idle"):
        return None
    if not o.server_closed:
        return "connection-left-open", ("client half-closed but the server end stayed open" if ending == "halfclose" else
                                        "client silent for three keep-alive periods, the server end is still open")
    methods = [c[0].encode("latin-1") for c in calls]
    resps, problems = rfc_response.read_all(o.wire, methods + [b"GET"], True)
    n200 = 0
    for i, r in enumerate(resps):
        is_err = r.code is not None and r.code >= 400 and not r.get(b"server")
        last = i == len(resps) - 1
        if r.code is None or r.problems or not r.complete:
            # an application reply may be cut when its body could not be read; an error reply may not be malformed
            if r.code is not None and r.get(b"server") and last:
                continue
            return "malformed-reply", "reply %d: %s; wire %r" % (i, r.problems, o.wire[-200:])
        if is_err:
            if not last or "bytes-after-last-response" in problems:
                return "bytes-after-error-reply", "something follows the error reply: %r" % o.wire[-120:]
            if b"close" not in r.tokens(b"connection"):
                return "error-reply-without-connection-close", "error reply head %r" % o.wire[r.start:r.head_end]
            if r.framing != "length":
                return "error-reply-without-length", "framing %s" % r.framing
        else:
            if r.code != 200:
                return "unexpected-status", "status %s" % r.code
            n200 += 1
    if "bytes-after-last-response" in problems:
        return "junk-after-last-reply", "wire tail %r" % o.wire[-80:]
    errs = [r for r in resps if r.code is not None and r.code >= 400 and not r.get(b"server")]
    if len(errs) > 1:
        return "more-than-one-error-reply", "%d error replies" % len(errs)
    if n200 > len(calls):
        return "reply-without-app-call", "%d success replies, %d application calls" % (n200, len(calls))
    return None


def gen_prefixes():
    for s in SEEDS:
        for i in range(0, len(s) + 1):
            yield s[:i]


def gen_mutations():
    for s in SEEDS:
        for off in range(len(s) + 1):
            for b in ALPHABET:
                if off < len(s) and s[off:off + 1] != b:
                    yield s[:off] + b + s[off + 1:]
                yield s[:off] + b + s[off:]


def gen_mustreject():
    yield from c01.gen_slot_a(1)
    yield from c01.gen_slot_b()
    yield from c01.gen_slot_c()


def gen_proxy():
    s = PROXY_SEED
    for i in range(0, len(s) + 1):
        yield s[:i]
    for off in range(len(s) + 1):
        for b in ALPHABET:
            yield s[:off] + b + s[off:]


def gen_rejects_small():
    yield from c01.gen_slot_c()
    yield from c01.gen_slot_a(0)
    for s in SEEDS[:3]:
        for off in range(0, len(s), 3):
            yield s[:off] + b"\x00" + s[off:]


GENS = {"rejects-small": gen_rejects_small, "prefixes": gen_prefixes, "mutations": gen_mutations, "mustreject": gen_mustreject, "proxy": gen_proxy}
WORKERS = [("sync", {}), ("gthread", {"keepalive": 2, "threads": 1, "worker_connections": 4}), ("async", {"keepalive": 2}),
           ("gthread", {"keepalive": 0}), ("async", {"keepalive": 0})]
NSH = 8
FOLLOW_EVERY = 20


def _task(t):
    wi, gname, ending, peer_k, shard = t
    kind, kw = WORKERS[wi]
    kw = dict(kw)
    proxy_mode = gname == "proxy"
    if proxy_mode:
        kw.update({"proxy_protocol": True, "proxy_allow_ips": "*"})
    peer = PEERS[peer_k]
    app = App()
    b = bench.Bench(kind, kw, app)
    evals = 0
    outcomes = {}
    viols = {}

    def note(v, data, extra=""):
        if v and v[0] not in viols:
            viols[v[0]] = violation(v[0] + ":" + kind, "worker=%s %r ending=%s peer=%s stream=%r%s: %s" % (
                kind, WORKERS[wi][1], ending, peer_k, data[:140], extra, v[1]),
                {"worker": wi, "gen": gname, "ending": ending, "peer": peer_k, "data": data.decode("latin-1")})

    def follow_up(culprit):
        app.calls = []
        o = b.connection(PLAIN, peer=peer)
        ok = o.exc is None and len(app.calls) == 1 and o.wire.startswith(b"HTTP/1.1 200 OK\r\n") and o.wire.endswith(b"ok:0")
        if not ok:
            note(("follow-up-request-not-served", "after the hostile connection(s) a plain request got %r (exc %s, %d app calls)" % (
                o.wire[:60], o.exc, len(app.calls))), culprit)
        return ok

    try:
        block = []
        for idx, data in enumerate(GENS[gname]()):
            if idx % NSH != shard:
                continue
            app.calls = []
            o = b.connection(data, ending=ending, peer=peer)
            evals += 1
            v = judge(data, ending, o, app.calls, proxy_mode)
            oc = "%s/%d-calls" % ((o.wire.split(b"\r\n", 1)[0][9:12] or b"---").decode("latin-1") if o.wire else "silent", len(app.calls))
            outcomes[oc] = outcomes.get(oc, 0) + 1
            note(v, data)
            if v and v[0] == "worker-stopped":
                b.worker.alive = True
            block.append(data)
            if len(block) >= FOLLOW_EVERY:
                follow_up(block[-1])
                block = []
        if block:
            follow_up(block[-1])
    finally:
        b.close()
    return {"evals": evals, "viols": list(viols.values()), "outcomes": outcomes, "key": repr(t)}


def _noread_task(t):
    """A client that sends a huge rejected request and never reads the (equally huge, because echoed) error reply:
    the worker must get out of handle() regardless - it may not sit in a blocking write."""
    import socket
    import struct
    import threading
    import time
    wi, size = t
    kind, kw = WORKERS[wi]
    kw = dict(kw)
    kw["limit_request_line"] = 0
    app = App()
    b = bench.Bench(kind, kw, app)
    viols = []
    try:
        for label, data in (("four-token-line", b"GET /" + b"a" * size + b" x HTTP/1.1\r\nHost: h\r\n\r\n"),
                            ("bad-version", b"GET /" + b"a" * 20 + b" HTTP/1." + b"9" * size + b"\r\n\r\n"),
                            ("bad-method", b"G" * size + b"(T / HTTP/1.1\r\n\r\n")):
            s, c = socket.socketpair()
            # a send that cannot make progress for LIMIT seconds fails instead of hanging the checker for good
            LIMIT = 4.0
            s.setsockopt(socket.SOL_SOCKET, socket.SO_SNDTIMEO, struct.pack("ll", int(LIMIT), 0))
            th = threading.Thread(target=lambda: c.sendall(data), daemon=True)
            th.start()
            app.calls = []
            t0 = time.time()
            o = b._serve(s, None, PEER_TCP)
            took = time.time() - t0
            th.join(5)
            v = None
            if took >= LIMIT - 0.5:
                v = ("worker-blocked-writing-error-reply", "%s of %d bytes, client does not read: handle() returned only after %.1f s (a blocked send)" % (label, size, took))
            elif o.exc:
                v = ("exception-escaped-handle", o.exc)
            elif app.calls:
                v = ("app-called-for-unacceptable-request", "%r" % app.calls[:1])
            elif o.close_calls < 1:
                v = ("server-did-not-close", "handle() returned without closing the client socket")
            for x in (s, c):
                try:
                    x.close()
                except OSError:
                    pass
            if v:
                viols.append(violation(v[0] + ":" + kind, "worker=%s limit_request_line=0 %s: %s" % (kind, label, v[1]),
                                       {"noread": [wi, size]}))
                break
            app.calls = []
            o2 = b.connection(PLAIN, peer=PEER_TCP)
            if not (o2.exc is None and len(app.calls) == 1 and o2.wire.startswith(b"HTTP/1.1 200 OK\r\n")):
                viols.append(violation("follow-up-request-not-served:" + kind, "after the unread huge error reply a plain request got %r" % o2.wire[:60], {"noread": [wi, size]}))
                break
    finally:
        b.close()
    return {"evals": 3, "viols": viols, "outcomes": {"noread": 3}, "key": repr(("N",) + tuple(t))}


def _accept_errors_task(t):
    """The threaded worker's accept loop (the real ThreadWorker.run under the controlled scheduler): a connection that was
    reset in the listen queue (ECONNABORTED) or taken by a sibling (EAGAIN) is not the worker's end - it serves the next client."""
    from props import c13
    (threads,) = t
    cfg = {"threads": threads, "worker_connections": 3, "keepalive": 2}
    viols = []
    n = 0
    for first in (("abort",), ("steal",)):
        for second in (("abort",), ("steal",), None):
            hist = [((first,), [])] + ([((second,), [])] if second else []) + [((("connect", 0),), []), ((("send", 0, "close"),), [])]
            r = c13.run_history(cfg, hist, drain=[(("tick",),)] * 2)
            n += 1
            w = r["world"]
            served = w.answered(0) if 0 in w.clients else 0
            err = r["error"]
            if err or served < 1:
                viols.append(violation("worker-stopped-by-accept-error:gthread", "threads=%d history %r: %s; client 0, which connected afterwards and sent a request, got %d response(s)" % (
                    threads, [list(h[0]) for h in hist], "run() ended: %s %s" % err if err else "no exception", served), {"accept_errors": [threads]}))
                return {"evals": n, "viols": viols, "outcomes": {"accept-errors": n}, "key": repr(("A",) + tuple(t))}
    return {"evals": n, "viols": viols, "outcomes": {"accept-errors": n}, "key": repr(("A",) + tuple(t))}


class StreamFirstApp:
    """Starts streaming its response before it has looked at the request body."""

    def __init__(self):
        self.calls = []

    def __call__(self, environ, start_response):
        self.calls.append((environ["REQUEST_METHOD"], environ["RAW_URI"]))
        start_response("200 OK", [("Content-Type", "text/plain")])

        def gen():
            yield b"early-part;"
            body = environ["wsgi.input"].read()
            yield b"got %d" % len(body)
        return gen()


def _stream_first_task(t):
    """A request whose body turns out to be malformed only after the application began to answer: the reply already on the
    wire cannot be taken back - no second reply may be spliced into it."""
    import re
    (wi,) = t
    kind, kw = WORKERS[wi]
    app = StreamFirstApp()
    b = bench.Bench(kind, kw, app)
    viols = []
    n = 0
    head = b"POST /s HTTP/1.1\r\nHost: h\r\nTransfer-Encoding: chunked\r\n\r\n"
    bodies = [b"3\r\nabc\r\nZZ\r\nq\r\n0\r\n\r\n", b"3\r\nabc\r\n3\r\nabcXX0\r\n\r\n", b"3\r\nabc\r\n-1\r\n\r\n", b"3\r\nabc\r\n1;\x00\r\na\r\n0\r\n\r\n",
              b"3\r\nabc\r\n0\r\nBad Trailer\r\n\r\n", b"3\r\nab", b"3\r\nabc\r\n5\r\nab"]
    cl = [b"POST /s HTTP/1.1\r\nHost: h\r\nContent-Length: 10\r\n\r\nabc"]
    try:
        for stream in [head + x for x in bodies] + cl:
            for ending in ("halfclose", "close"):
                app.calls = []
                o = b.connection(stream + (NEXT if ending == "halfclose" and stream.startswith(head) else b""), ending=ending, peer=PEER_TCP)
                n += 1
                v = None
                nstatus = len(re.findall(rb"HTTP/1\.[01] \d{3} ", o.wire))
                if o.exc:
                    v = ("exception-escaped-handle", o.exc)
                elif nstatus > max(len(app.calls), 1):
                    v = ("second-reply-spliced-into-response", "the application was called %d time(s) and had started its reply when the request body turned out malformed: "
                         "the connection carries %d status lines: %r" % (len(app.calls), nstatus, o.wire[:260]))
                elif ending == "halfclose" and not o.server_closed:
                    v = ("connection-left-open", "the server end stayed open")
                if v:
                    viols.append(violation(v[0] + ":stream-first:" + kind, "worker=%s %r stream %r: %s" % (kind, kw, stream[-40:], v[1]), {"stream_first": [wi]}))
                    return {"evals": n, "viols": viols, "outcomes": {"stream-first": n}, "key": repr(("S",) + tuple(t))}
    finally:
        b.close()
    return {"evals": n, "viols": viols, "outcomes": {"stream-first": n}, "key": repr(("S",) + tuple(t))}


def _tls_cell(cell):
    """A TLS listener and clients that are not TLS clients at all (plaintext, garbage, hang-up during the handshake): the
    worker lives and serves the next real client.  Needs the openssl tool for a throw-away certificate; skipped without it."""
    import shutil as _sh
    import socket
    import ssl
    import subprocess
    import tempfile
    import time
    from vlib import realproc as rp
    wc, on_connect = cell
    exe = _sh.which("openssl") or ("/root/miniconda/bin/openssl" if os.path.exists("/root/miniconda/bin/openssl") else None)
    if exe is None:
        return "skip"
    d = tempfile.mkdtemp(prefix="verif-c05-tls-", dir="/dev/shm" if os.path.isdir("/dev/shm") else None)
    try:
        key, crt = os.path.join(d, "k.pem"), os.path.join(d, "c.pem")
        r = subprocess.run([exe, "req", "-x509", "-newkey", "rsa:2048", "-nodes", "-keyout", key, "-out", crt, "-days", "2", "-subj", "/CN=localhost"],
                           capture_output=True, timeout=60)
        if r.returncode != 0 or not os.path.exists(crt):
            return "skip"
        os.chmod(d, 0o755)
        os.chmod(key, 0o644)
        s = rp.Server(worker_class=wc, workers=1, bind="tcp", graceful_timeout=2, timeout=30, threads=2 if wc == "gthread" else None,
                      extra={"certfile": crt, "keyfile": key, "do_handshake_on_connect": on_connect})
        try:
            if not s.start():
                return ("infrastructure", "TLS server did not start: %s" % s.log_text()[-200:])
            time.sleep(0.3)
            before = set(s.workers())
            for label, payload in (("plaintext", b"GET / HTTP/1.1\r\nHost: h\r\n\r\n"), ("garbage", b"\x16\x03\x01\x00\x05hello"), ("hang-up", b""),
                                   ("half-record", b"\x16\x03\x01\x02\x00\x01\x00")):
                c = socket.create_connection(("127.0.0.1", s.port), timeout=3)
                try:
                    if payload:
                        c.sendall(payload)
                    c.settimeout(1.0)
                    try:
                        c.recv(4096)
                    except OSError:
                        pass
                finally:
                    c.close()
                time.sleep(0.4)
                now = set(s.workers())
                if now != before:
                    return ("worker-replaced-after-hostile-tls-client", "%s worker, do_handshake_on_connect=%s: after a %s client the worker set changed %r -> %r: %s" % (
                        wc, on_connect, label, sorted(before), sorted(now), [l for l in s.log_text().splitlines() if "Exception" in l or "Error" in l][-2:]))
            ctx = ssl.create_default_context()
            ctx.check_hostname = False
            ctx.verify_mode = ssl.CERT_NONE
            raw = socket.create_connection(("127.0.0.1", s.port), timeout=5)
            t = ctx.wrap_socket(raw, server_hostname="localhost")
            t.sendall(b"GET /plain HTTP/1.1\r\nHost: h\r\nConnection: close\r\n\r\n")
            data = b""
            try:
                while True:
                    chunk = t.recv(65536)
                    if not chunk:
                        break
                    data += chunk
            except OSError:
                pass
            t.close()
            if not data.startswith(b"HTTP/1.1 200"):
                return ("follow-up-request-not-served", "%s worker: a real TLS client after the hostile ones got %r" % (wc, data[:60]))
            return None
        finally:
            s.cleanup()
    finally:
        _sh.rmtree(d, ignore_errors=True)


def _tls_task(t):
    cell = tuple(t)
    v = _tls_cell(cell)
    if v in (None, "skip"):
        return {"evals": 1, "viols": [], "outcomes": {"tls-skip" if v == "skip" else "tls": 1}, "key": repr(("T",) + cell)}
    v2 = _tls_cell(cell)            # a real-process anomaly counts only if it reproduces
    viols = []
    if v2 not in (None, "skip") and v2[0] == v[0] and v[0] != "infrastructure":
        viols.append(violation(v[0] + ":" + cell[0], v[1], {"tls": list(cell)}))
    return {"evals": 1, "viols": viols, "outcomes": {"tls": 1}, "key": repr(("T",) + cell)}


class _Veto(Exception):
    pass


def _veto_hook(worker, req):
    if req.path.startswith("/admin"):
        raise _Veto("pre_request hook refuses %s" % req.path)


def _veto_task(t):
    """A request the configured pre_request hook refuses (it raises) is a rejected request like any other: the application
    is not called for it, the client gets an error reply, the connection is closed."""
    (wi,) = t
    kind, kw = WORKERS[wi]
    kw = dict(kw)
    kw["pre_request"] = _veto_hook
    app = App()
    b = bench.Bench(kind, kw, app)
    viols = []
    n = 0
    ok = b"GET /fine HTTP/1.1\r\nHost: h\r\n\r\n"
    bad = [b"GET /admin/drop HTTP/1.1\r\nHost: h\r\n\r\n", b"POST /admin/users HTTP/1.1\r\nHost: h\r\nContent-Length: 3\r\n\r\nabc",
           b"GET /admin HTTP/1.0\r\nConnection: keep-alive\r\n\r\n"]
    try:
        for stream, nfine in [(x, 0) for x in bad] + [(ok + x, 1) for x in bad] + [(x + ok, 0) for x in bad] + [(ok + ok + bad[0] + ok, 2)]:
            for ending in ("halfclose", "close"):
                app.calls = []
                o = b.connection(stream, ending=ending, peer=PEER_TCP)
                n += 1
                v = None
                refused = [c_ for c_ in app.calls if c_[1].startswith("/admin")]
                fine = [c_ for c_ in app.calls if c_[1] == "/fine"]
                if o.exc:
                    v = ("exception-escaped-handle", o.exc)
                elif refused:
                    v = ("app-called-for-request-refused-by-hook", "the pre_request hook raised for %r, the application was called all the same" % (refused[0][:2],))
                elif ending == "halfclose" and kind != "sync" and kw.get("keepalive") and len(fine) != nfine:
                    v = ("app-call-sequence", "%d calls for /fine, the stream has %d before the refused request" % (len(fine), nfine))
                elif len(fine) > nfine + 0 and kind == "sync":
                    v = ("app-call-sequence", "%d calls for /fine" % len(fine))
                elif ending == "halfclose":
                    resps, problems = rfc_response.read_all(o.wire, [b"GET"] * 6, True)
                    if not o.server_closed:
                        v = ("connection-left-open", "the server end stayed open after the refused request")
                    elif resps and (resps[-1].problems or not resps[-1].complete):
                        v = ("malformed-reply", "last reply %s" % resps[-1].problems)
                    elif len([r for r in resps if r.code == 200]) > len(fine):
                        v = ("reply-without-app-call", "%d success replies, %d application calls" % (len([r for r in resps if r.code == 200]), len(fine)))
                if v:
                    viols.append(violation(v[0] + ":hook:" + kind, "worker=%s %r pre_request hook refuses /admin*, stream %r ending=%s: %s" % (kind, WORKERS[wi][1], stream[:80], ending, v[1]),
                                           {"veto": [wi]}))
                    return {"evals": n, "viols": viols, "outcomes": {"veto": n}, "key": repr(("V",) + tuple(t))}
    finally:
        b.close()
    return {"evals": n, "viols": viols, "outcomes": {"veto": n}, "key": repr(("V",) + tuple(t))}


def _dispatch(t):
    if t[0] == "N":
        return _noread_task(t[1:])
    if t[0] == "A":
        return _accept_errors_task(t[1:])
    if t[0] == "V":
        return _veto_task(t[1:])
    if t[0] == "S":
        return _stream_first_task(t[1:])
    if t[0] == "T":
        return _tls_task(t[1:])
    return _task(t)


def kind_of_worker(wi):
    return WORKERS[wi][0]


def run(ctx):
    tasks = []
    for wi in range(len(WORKERS)):
        main_cfg = wi < 3
        for shard in range(NSH):
            for ending in ("halfclose", "close", "reset", "reset-after-read"):
                if main_cfg or ending == "halfclose":
                    tasks.append((wi, "prefixes", ending, "tcp", shard))
            if main_cfg:
                tasks.append((wi, "prefixes", "halfclose", "unix", shard))
                tasks.append((wi, "mutations", "halfclose", "tcp", shard))
                tasks.append((wi, "mustreject", "halfclose", "unix", shard))
                tasks.append((wi, "proxy", "halfclose", "tcp", shard))
                tasks.append((wi, "rejects-small", "reset-after-read", "tcp", shard))
                tasks.append((wi, "rejects-small", "close", "unix", shard))
                tasks.append((wi, "rejects-small", "halfclose", "tcp6", shard))
                tasks.append((wi, "prefixes", "halfclose", "tcp6", shard))
                if kind_of_worker(wi) == "async":
                    # the client stays connected and silent: only the keep-alive timer ends the wait
                    tasks.append((wi, "prefixes", "idle", "tcp", shard))
                    tasks.append((wi, "rejects-small", "idle", "unix", shard))
                if ctx.thorough:
                    tasks.append((wi, "mutations", "reset-after-read", "tcp", shard))
                    tasks.append((wi, "mutations", "halfclose", "unix", shard))
                    tasks.append((wi, "mustreject", "reset-after-read", "tcp", shard))
            elif ctx.thorough:
                tasks.append((wi, "mutations", "halfclose", "tcp", shard))
    for wi in range(3):
        for size in (700000, 3000000):
            tasks.append(("N", wi, size))
    for threads in (1, 2):
        tasks.append(("A", threads))
    for wi in range(len(WORKERS)):
        tasks.append(("V", wi))
        tasks.append(("S", wi))
    for wc in ("sync", "gthread", "gevent"):
        for on_connect in (True, False):
            tasks.append(("T", wc, on_connect))
    random.Random(ctx.seed).shuffle(tasks)
    res = par.pmap(_dispatch, tasks)
    res.sort(key=lambda r: r["key"])
    outcomes = {}
    for r in res:
        for k, v in r["outcomes"].items():
            outcomes[k] = outcomes.get(k, 0) + v
    viols = [v for r in res for v in r["viols"]]
    evals = sum(r["evals"] for r in res)
    cov = {
        "evaluations": evals,
        "distinct_nontrivial": evals - outcomes.get("200/1-calls", 0),
        "rule": "one case per (worker+config, generator stream, client ending, peer kind); generators: every prefix of %d seeds, every single-byte "
                "substitution/insertion from a %d-byte alphabet at every offset, the C01 must-reject corpus, a PROXY-line seed; "
                "non-trivial = anything but one clean 200 with one application call" % (len(SEEDS), len(ALPHABET)),
        "samples": [SEEDS[2][:37], SEEDS[1][:20] + b"\x00" + SEEDS[1][20:], b"POST /a HTTP/1.1\r\nTransfer-Encoding: chunked\r\nContent-Length: 5\r\n\r\n"],
        "exhaustive": True,
        "outcome_classes": dict(sorted(outcomes.items(), key=lambda kv: -kv[1])[:25]),
        "workers": ["%s %r" % w for w in WORKERS],
        "follow_up_requests": "one plain request on the same worker object after every %d hostile connections" % FOLLOW_EVERY,
    }
    return Result("exploration", cov, viols,
                  ["the client sends its bytes and ends the connection before the worker runs (or resets it right after the worker's first read); "
                   "ending 'idle' (async workers): the client stays connected and silent, the keep-alive timer fires in the worker's wait",
                   "a request is 'acceptable' by its head (the server streams bodies): a body-level error surfaces inside the application",
                   "closing the server socket twice is not a violation; using it after close is"])


def replay(case):
    if "accept_errors" in case:
        r = _accept_errors_task(tuple(case["accept_errors"]))
        return r["viols"][0] if r["viols"] else None
    if "tls" in case:
        r = _tls_task(tuple(case["tls"]))
        return r["viols"][0] if r["viols"] else None
    if "stream_first" in case:
        r = _stream_first_task(tuple(case["stream_first"]))
        return r["viols"][0] if r["viols"] else None
    if "veto" in case:
        r = _veto_task(tuple(case["veto"]))
        return r["viols"][0] if r["viols"] else None
    if "noread" in case:
        r = _noread_task(tuple(case["noread"]))
        return r["viols"][0] if r["viols"] else None
    kind, kw = WORKERS[case["worker"]]
    kw = dict(kw)
    proxy_mode = case["gen"] == "proxy"
    if proxy_mode:
        kw.update({"proxy_protocol": True, "proxy_allow_ips": "*"})
    peer = PEERS[case["peer"]]
    app = App()
    b = bench.Bench(kind, kw, app)
    try:
        data = case["data"].encode("latin-1")
        o = b.connection(data, ending=case["ending"], peer=peer)
        v = judge(data, case["ending"], o, app.calls, proxy_mode)
        if v is None:
            app.calls = []
            o2 = b.connection(PLAIN, peer=peer)
            if not (o2.exc is None and len(app.calls) == 1 and o2.wire.startswith(b"HTTP/1.1 200 OK\r\n")):
                v = ("follow-up-request-not-served", "plain request after it got %r" % o2.wire[:60])
        if v:
            return violation(v[0] + ":" + kind, v[1] + " wire=%r errors=%r" % (o.wire[:300], o.errors[-2:]), case)
    finally:
        b.close()
    return None
