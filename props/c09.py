"""C09 - application-supplied status and headers cannot split or forge a response.

Decides by: start_response called (through the real worker handle()) with every one of 258
characters at every position class of status / header name / header value, all pairs of dangerous
characters in two positions, hop-by-hop names in all case variants, and repeated start_response
calls.  Oracle: the raw head at the client, line by line."""
import random
import re

from vlib import bench, par, rfc_response
from vlib.runner import Result, violation

CHARS = [chr(i) for i in range(256)] + ["Ā", " "]
DANGER = ["\r", "\n", "\x00", ":", " ", "\t", "\x7f", "\x85", " ", "\r\n"]
TOKEN = re.compile(r"[!#$%&'*+\-.^_`|~0-9A-Za-z]+")
HOP = ["connection", "keep-alive", "proxy-authenticate", "proxy-authorization", "te", "trailers",
       "transfer-encoding", "upgrade", "server", "date"]
REQS = {"1.1": b"GET /x HTTP/1.1\r\nHost: h\r\n\r\n", "1.0": b"GET /x HTTP/1.0\r\n\r\n"}


class App:
    def __init__(self):
        self.prog = None

    def __call__(self, environ, start_response):
        p = self.prog
        kind = p["kind"]
        if kind == "single":
            start_response(p["status"], list(p["headers"]))
            return [b"ok"]
        if kind == "single-empty":
            start_response(p["status"], list(p["headers"]))
            return []
        if kind == "excinfo-first":
            # an error handler's first (and only) call carries exc_info: the status is checked like any other
            import sys
            try:
                raise ValueError("x")
            except ValueError:
                start_response(p["status"], list(p["headers"]), sys.exc_info())
            return [b"ok"]
        if kind == "excinfo-replace":
            import sys
            start_response("200 OK", [("X-First", "1")])
            try:
                raise ValueError("x")
            except ValueError:
                start_response(p["status"], list(p["headers"]), sys.exc_info())
            return [b"ok"]
        if kind == "swallow":
            # the application catches the refusal of its bad start_response call and carries on with a fallback body
            try:
                start_response(p["status"], list(p["headers"]))
            except Exception:
                pass
            return [b"fallback"]
        if kind == "twice-plain":
            start_response("200 OK", [("X-First", "1")])
            start_response("404 Not Found", [("X-Second", "2")])
            return [b"ok"]
        if kind == "twice-excinfo-before":
            start_response("200 OK", [("X-First", "1")])
            try:
                raise ValueError("x")
            except ValueError:
                import sys
                start_response("500 Oops", [("X-Second", "2")], sys.exc_info())
            return [b"ok"]
        if kind == "twice-excinfo-after":
            w = start_response("200 OK", [("X-First", "1")])
            w(b"part")
            try:
                raise ValueError("x")
            except ValueError:
                import sys
                start_response("500 Oops", [("X-Second", "2\r\nInjected: 1")], sys.exc_info())
            return [b"ok"]
        if kind in ("late-excinfo-after-empty-write", "late-excinfo-after-empty-yield", "late-excinfo-after-write"):
            # the head is already on the wire (flushed by a write, possibly of zero body bytes) when an error path calls
            # start_response again with exc_info; WSGI: that call must re-raise; the application swallows it and goes on
            import sys
            first = b"" if "empty" in kind else b"part"

            def late():
                try:
                    raise ValueError("x")
                except ValueError:
                    try:
                        start_response(p["status"], list(p["headers"]), sys.exc_info())
                    except ValueError:
                        pass
            if kind.endswith("yield"):
                def gen():
                    start_response("200 OK", [("X-First", "1")])
                    yield first
                    late()
                    yield LATE_PAYLOAD
                return gen()
            w = start_response("200 OK", [("X-First", "1")])
            w(first)
            late()
            return [LATE_PAYLOAD]
        if kind == "raise-after-write":
            # the head and some body are on the wire when the application fails, with whatever exception
            import errno as _errno
            w = start_response("200 OK", [("X-First", "1")])
            w(b"part")
            exc = {"FileNotFoundError": FileNotFoundError(_errno.ENOENT, "No such file"), "OSError-EIO": OSError(_errno.EIO, "I/O error"),
                   "PermissionError": PermissionError(_errno.EACCES, "denied"), "ValueError": ValueError("x"), "TimeoutError": TimeoutError("t"),
                   "BrokenPipeError": BrokenPipeError(_errno.EPIPE, "pipe"), "KeyError": KeyError("k")}[p["exc"]]
            if p.get("via") == "iter":
                def gen():
                    yield b"more"
                    raise exc
                return gen()
            raise exc
        raise AssertionError(kind)


LATE_PAYLOAD = b"0\r\n\r\nHTTP/1.1 200 OK\r\nContent-Length: 4\r\nX-Forged: 1\r\n\r\nEVIL"


def place(base, c, pos):
    if pos == "start":
        return c + base
    if pos == "end":
        return base + c
    m = len(base) // 2
    return base[:m] + c + base[m:]


def must_refuse(status, headers):
    for s in [status] + [x for h in headers for x in h]:
        if "\r" in s or "\n" in s or "\x00" in s:
            return "CR/LF/NUL in " + repr(s)
    for n, _v in headers:
        if not TOKEN.fullmatch(n):
            return "non-token header name %r" % n
    return None


def encodable(s):
    try:
        s.encode("latin-1")
        return True
    except UnicodeEncodeError:
        return False


THOROUGH = False


def cases():
    """(label, program)"""
    if THOROUGH:
        # every character at every position of a longer value / name / reason, and triples of dangerous strings
        for c in CHARS:
            for i in range(0, 7):
                yield "value", {"kind": "single", "status": "200 OK", "headers": [("X-A", "abcdef"[:i] + c + "abcdef"[i:]), ("X-Z", "z")]}
                yield "name", {"kind": "single", "status": "200 OK", "headers": [("X-Name"[:i] + c + "X-Name"[i:], "v"), ("X-Z", "z")]}
                yield "reason", {"kind": "single", "status": "200 " + "Reason"[:i] + c + "Reason"[i:], "headers": [("X-Z", "z")]}
            yield "value", {"kind": "single", "status": "200 OK", "headers": [("X-A", "a"), ("X-B", "b" + c), ("X-Z", "z")]}
        for a in DANGER:
            for b in DANGER:
                for d in DANGER:
                    yield "value-triple", {"kind": "single", "status": "200 OK", "headers": [("X-A", "p" + a + "q" + b + "r" + d), ("X-Z", "z")]}
                    yield "reason-triple", {"kind": "single", "status": "200 " + a + "O" + b + "K" + d, "headers": [("X-Z", "z")]}
    for c in CHARS:
        for pos in ("start", "middle", "end"):
            yield "value", {"kind": "single", "status": "200 OK", "headers": [("X-A", place("ab", c, pos)), ("X-Z", "z")]}
            yield "name", {"kind": "single", "status": "200 OK", "headers": [(place("X-A", c, pos), "v"), ("X-Z", "z")]}
            yield "reason", {"kind": "single", "status": "200 " + place("OK", c, pos), "headers": [("X-Z", "z")]}
        yield "code", {"kind": "single", "status": "200" + c + " OK", "headers": [("X-Z", "z")]}
        yield "code", {"kind": "single", "status": c + "200 OK", "headers": [("X-Z", "z")]}
    for a in DANGER:
        for b in DANGER:
            yield "value-pair", {"kind": "single", "status": "200 OK", "headers": [("X-A", "p" + a + "q" + b + "r"), ("X-Z", "z")]}
            yield "value-pair", {"kind": "single", "status": "200 OK", "headers": [("X-A", a + "Injected: 1" + b), ("X-Z", "z")]}
            yield "name-pair", {"kind": "single", "status": "200 OK", "headers": [("X" + a + "A" + b, "v"), ("X-Z", "z")]}
            yield "reason-pair", {"kind": "single", "status": "200 O" + a + "Injected: 1" + b + "K", "headers": [("X-Z", "z")]}
            yield "content-length-pair", {"kind": "single", "status": "200 OK", "headers": [("Content-Length", a + "2" + b)]}
    for h in HOP:
        for variant in (h, h.title(), h.upper(), h[:1].upper() + h[1:], " " + h, h + " ", h + "\t"):
            for val in ("x", "close", "chunked", "websocket", "upgrade", "Upgrade"):
                yield "hop", {"kind": "single", "status": "200 OK", "headers": [(variant, val), ("X-Z", "z")]}
    for k in ("twice-plain", "twice-excinfo-before", "twice-excinfo-after"):
        yield "second-call", {"kind": k}
    for k in ("late-excinfo-after-empty-write", "late-excinfo-after-empty-yield", "late-excinfo-after-write"):
        for hdrs in ([("Content-Length", "5"), ("X-Second", "2")], [("X-Second", "2")], [("Content-Length", "0")],
                     [("Transfer-Encoding", "identity"), ("X-Second", "2")], [("Connection", "close"), ("Content-Length", "%d" % len(LATE_PAYLOAD))]):
            for st in ("500 Oops", "200 OK", "204 No Content", "304 Not Modified"):
                yield "late-call", {"kind": k, "status": st, "headers": hdrs}
    # the documented websocket exception must not open the door for the other hop-by-hop fields, whatever the order
    for h in HOP:
        for val in ("x", "chunked", "gunicorn/evil"):
            yield "hop-with-upgrade", {"kind": "single", "status": "200 OK", "headers": [("Connection", "upgrade"), (h.title(), val), ("X-Z", "z")]}
            yield "hop-with-upgrade", {"kind": "single", "status": "200 OK", "headers": [(h.title(), val), ("Connection", "upgrade"), ("X-Z", "z")]}
            yield "hop-with-upgrade", {"kind": "single", "status": "101 Switching Protocols", "headers": [("Connection", "Upgrade"), ("Upgrade", "websocket"), (h.title(), val), ("X-Z", "z")]}
    for cl0 in ("0", "00", " 0", "0 "):
        for extra in ([], [("X-Z", "z")]):
            yield "content-length-zero", {"kind": "single-empty", "status": "200 OK", "headers": [("Content-Length", cl0)] + extra}
    for k in ("excinfo-first", "excinfo-replace"):
        for bad in ("500 Oops\r\nSet-Cookie: evil=1", "500 Oops\n", "500 O\x00ps", "500\rX: y Oops", "200 OK"):
            yield "status-with-excinfo", {"kind": k, "status": bad, "headers": [("X-Z", "z")]}
    for e in ("FileNotFoundError", "OSError-EIO", "PermissionError", "ValueError", "TimeoutError", "BrokenPipeError", "KeyError"):
        for via in ("call", "iter"):
            yield "raise-after-write", {"kind": "raise-after-write", "exc": e, "via": via}
    # refused start_response calls that the application swallows: nothing of the refused call may reach the wire
    for bad_status in ("299 EVIL\r\nX-Evil: 1", "200 OK\n", "200 O\x00K"):
        yield "swallow", {"kind": "swallow", "status": bad_status, "headers": [("X-Z", "z")]}
    for bad_header in (("X-A", "a\r\nX-Evil: 1"), ("X A", "v"), ("X-A", "a\n")):
        yield "swallow", {"kind": "swallow", "status": "200 OK", "headers": [("X-First", "1"), bad_header, ("X-Z", "z")]}


def judge(label, prog, o, ver):
    if o.exc:
        return "exception-escaped-handle", o.exc
    wire = o.wire
    resps, problems = rfc_response.read_all(wire, [b"GET"], o.server_closed)
    head_end = wire.find(b"\r\n\r\n")
    first = resps[0] if resps else None
    refused = (not wire) or (first is not None and first.code is not None and first.code >= 400 and not first.get(b"server"))
    if prog["kind"] == "swallow":
        head = wire.split(b"\r\n\r\n")[0]
        if b"X-Evil" in head or b"EVIL" in head or b"\x00" in head or b"\n\r\n" in wire[:wire.find(b"\r\n\r\n") + 4].replace(b"\r\n", b""):
            return "refused-call-reached-the-wire", "the application's start_response(%r, %r) was refused, it returned a fallback body, and the wire carries %r" % (
                prog["status"], prog["headers"], wire[:160])
        for line in head.split(b"\r\n"):
            if b"\n" in line or b"\r" in line:
                return "refused-call-reached-the-wire", "bare CR/LF inside a head line: %r" % line
        return None
    if prog["kind"] == "raise-after-write":
        nstatus = len(re.findall(rb"HTTP/1\.[01] \d{3}", wire))
        if nstatus > 1:
            return "second-head-after-application-error", "the application raised %s after the head and 4 body bytes were sent: the wire carries %d status lines: %r" % (
                prog["exc"], nstatus, wire[:300])
        if first is not None and first.complete and not first.problems and first.framing != "close":
            return "failed-response-looks-complete", "the application raised %s mid-response, yet the response reads as complete (%s framing): %r" % (prog["exc"], first.framing, wire[:200])
        return None
    if prog["kind"].startswith("late-"):
        want = (b"" if "empty" in prog["kind"] else b"part") + LATE_PAYLOAD
        if len(resps) != 1 or problems or not first.complete or first.problems:
            return "late-start_response-changes-framing", "head already sent, then start_response(%r, %r, exc_info): the connection now reads as %d response(s) %s %s; wire %r" % (
                prog["status"], prog["headers"], len(resps), problems, first.problems if first else "", wire[:300])
        if first.code != 200 or first.body != want or first.get(b"x-second"):
            return "late-start_response-changes-response", "status %s body %r (application wrote %r) X-Second=%r" % (first.code, first.body[:60], want[:20], first.get(b"x-second"))
        return None
    if prog["kind"] in ("excinfo-first", "excinfo-replace"):
        why = must_refuse(prog["status"], prog["headers"])
        head = wire.split(b"\r\n\r\n")[0]
        if why is not None and (b"evil" in head or b"\x00" in head or any((b"\n" in ln or b"\r" in ln) for ln in head.split(b"\r\n")) or b"\r\nX: y" in head):
            return "not-refused:status-with-exc_info", "%s in a start_response call that carries exc_info: the wire has %r" % (why, wire[:160])
        return None
    if prog["kind"] not in ("single", "single-empty"):
        # repeated start_response: no line other than server lines and X-First / X-Second, never 'Injected'
        if b"Injected" in wire.split(b"\r\n\r\n")[0]:
            return "forged-line-via-late-start_response", "head %r" % wire[:200]
        if prog["kind"] == "twice-plain" and not refused:
            return "second-start_response-accepted", "start_response called twice without exc_info and a response went out: %r" % wire[:80]
        return None
    status, headers = prog["status"], prog["headers"]
    why = must_refuse(status, headers)
    if why is None and not all(encodable(x) for x in [status] + [y for h in headers for y in h]):
        why = "not latin-1 encodable"
    if why is not None:
        if not refused:
            return "not-refused:" + label, "%s, but bytes of the application's response reached the wire: %r" % (why, wire[:160])
        return None
    if refused:
        return None        # rejecting more than required is allowed
    if head_end < 0:
        return "no-head-terminator:" + label, "wire %r" % wire[:120]
    lines = wire[:head_end].split(b"\r\n")
    exp = [b"HTTP/" + ver.encode() + b" " + status.encode("latin-1")]
    cl = None
    applines = []
    for n, v in headers:
        ln = n.lower().strip()
        if ln == "content-length":
            cl = v
        if ln in HOP:
            if ln == "upgrade" and v.strip(" \t").lower() == "websocket":
                applines.append((n + ": " + v.strip(" \t")).encode("latin-1"))
            continue
        applines.append((n + ": " + v.strip(" \t")).encode("latin-1"))
    if lines[0] != exp[0]:
        return "status-line-differs:" + label, "sent %r expected %r" % (lines[0], exp[0])
    rest = lines[1:]
    pat = [rb"Server: gunicorn", rb"Date: .{29}", rb"Connection: (close|keep-alive|upgrade)"]
    for i, p in enumerate(pat):
        if i >= len(rest) or not re.fullmatch(p, rest[i], re.S):
            return "server-lines-differ:" + label, "head %r" % wire[:head_end]
    rest = rest[3:]
    if rest and rest[0] == b"Transfer-Encoding: chunked":
        if cl is not None or ver == "1.0":
            return "unexpected-transfer-encoding:" + label, "head %r" % wire[:head_end]
        rest = rest[1:]
    if rest != applines:
        for h in HOP:
            if any(r.lower().startswith(h.encode() + b":") or r.lower().startswith(h.encode() + b" ") for r in rest if r not in applines):
                return "hop-by-hop-forwarded:" + label, "application field lines on the wire %r, expected %r" % (rest, applines)
        return "application-lines-differ:" + label, "application field lines on the wire %r, expected %r" % (rest, applines)
    return None


WORKERS = [("sync", {}), ("gthread", {"keepalive": 0}), ("async", {"keepalive": 0}), ("gthread", {"keepalive": 2, "worker_connections": 5, "threads": 1})]
NSH = 8


def _task(t):
    global THOROUGH
    THOROUGH, wi, ver, shard = t
    kind, kw = WORKERS[wi]
    app = App()
    b = bench.Bench(kind, kw, app)
    evals = 0
    viols = {}
    outcomes = {}
    try:
        for idx, (label, prog) in enumerate(cases()):
            if idx % NSH != shard:
                continue
            app.prog = prog
            b.worker.alive = True
            o = b.connection(REQS[ver])
            evals += 1
            v = judge(label, prog, o, ver)
            oc = label + ("/refused" if not o.wire.startswith(b"HTTP/" + ver.encode() + b" 2") else "/sent")
            outcomes[oc] = outcomes.get(oc, 0) + 1
            if v and v[0] not in viols:
                viols[v[0]] = violation(v[0], "worker=%s HTTP/%s program=%r: %s" % (kind, ver, prog, v[1]),
                                        {"worker": wi, "ver": ver, "prog": prog, "label": label})
    finally:
        b.close()
    return {"evals": evals, "viols": list(viols.values()), "outcomes": outcomes, "key": t}


def run(ctx):
    global THOROUGH
    THOROUGH = ctx.thorough
    tasks = [(ctx.thorough, wi, ver, s) for wi in range(len(WORKERS)) for ver in ("1.1", "1.0") for s in range(NSH)]
    random.Random(ctx.seed).shuffle(tasks)
    res = par.pmap(_task, tasks)
    res.sort(key=lambda r: r["key"])
    outcomes = {}
    for r in res:
        for k, v in r["outcomes"].items():
            outcomes[k] = outcomes.get(k, 0) + v
    evals = sum(r["evals"] for r in res)
    viols = [v for r in res for v in r["viols"]]
    ncases = sum(1 for _ in cases())
    nontriv = sum(v for k, v in outcomes.items() if k.endswith("/refused")) + sum(
        v for k, v in outcomes.items() if k.split("/")[0] in ("hop", "hop-with-upgrade", "swallow", "second-call", "value-pair", "name-pair", "reason-pair"))
    cov = {
        "evaluations": evals,
        "distinct_nontrivial": nontriv,
        "rule": "one case per (worker, HTTP version, start_response program); programs put each of 258 characters at start/middle/end of "
                "status code, reason phrase, header name, header value, all ordered pairs of 10 dangerous strings in two positions, every hop-by-hop "
                "name in 7 spelling variants x 6 values, and 3 repeated-call programs; non-trivial = refused, or a pair / hop-by-hop / repeated-call program",
        "samples": [{"status": "200 OK", "headers": [["X-A", "a\rb"], ["X-Z", "z"]]},
                    {"status": "200 O\r\nInjected: 1\r\nK", "headers": [["X-Z", "z"]]},
                    {"status": "200 OK", "headers": [["Transfer-Encoding ", "chunked"], ["X-Z", "z"]]}],
        "exhaustive": True,
        "programs": ncases, "workers": ["%s %r" % w for w in WORKERS],
        "outcome_classes": outcomes,
    }
    return Result("exploration", cov, viols,
                  ["only CR, LF, NUL, non-token names and text not encodable as latin-1 MUST be refused; refusing more is allowed",
                   "Upgrade: websocket is the documented hop-by-hop exception",
                   "a second start_response with exc_info before the first write may add to or replace the earlier headers (not judged)"])


def replay(case):
    kind, kw = WORKERS[case["worker"]]
    app = App()
    b = bench.Bench(kind, kw, app)
    try:
        prog = case["prog"]
        if "headers" in prog:
            prog["headers"] = [tuple(h) for h in prog["headers"]]
        app.prog = prog
        o = b.connection(REQS[case["ver"]])
        v = judge(case["label"], prog, o, case["ver"])
        if v:
            return violation(v[0], v[1], case)
    finally:
        b.close()
    return None
