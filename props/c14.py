"""C14 - binary upgrade (USR2) hands the listening sockets over without a gap.

(a) simulated kernel, real Arbiter, one master at a time against every environment answer of the
    other side: OLD master: all histories over {USR2, USR2 again, new master exits, HUP, WINCH
    (daemon), TERM/QUIT/INT, worker exit} - second USR2 ignored while an upgrade is pending,
    rollback restores the single-master state, stopping while the new master lives never unlinks
    the unix socket path; the re-exec child branch is executed for real (fork() == 0) and its
    exec environment checked.  NEW master (GUNICORN_PID / GUNICORN_FD inherited, pid file of the
    old one present): adopts the inherited fds, writes '<pidfile>.2', ignores USR2 while the parent
    lives, after the parent is gone promotes itself and moves its pid to the configured name; if
    stopped first it leaves the parent's pid file and the socket path alone.
(b) real masters: every upgrade/rollback history of length <= 4 on TCP and unix binds under a
    background client: never refused while a master lives, pid files / socket file / process table."""
import itertools
import os
import random
import signal
import socket
import threading
import time

from vlib import par, realproc as rp, simkernel as sk, simfs
from vlib.runner import Result, violation
from props import c03

PIDFILE = "/run/app.pid"
UNIX = "unix:/run/app.sock"


def cfgs(bind, daemon=False):
    b = [UNIX] if bind == "unix" else ["127.0.0.1:8000"]
    c = sk.make_cfg(workers=2, timeout=30, graceful_timeout=2, pidfile=PIDFILE, bind=b, daemon=daemon)
    return [c, c, c, c]


# ---------------------------------------------------------------- old master ---------------------

OLD_EVENTS = [("sig", "USR2"), ("exit-master2", 0), ("exit-master2", 1 << 8), ("exit-master2", 3 << 8), ("exit-master2", 4 << 8), ("sig", "HUP"), ("sig", "WINCH"), ("sig", "TERM"), ("sig", "QUIT"),
              ("exit", 0, 9), ("tick",), (("sig", "USR2"), ("sig", "USR2")), (("exit-master2", 0), ("exit", 0, 9)), (("sig", "WINCH"), ("sig", "USR2"))]


def old_execute(params, script, inject=None):
    k = sk.Kernel(script=script, inject=inject, term="now", settle=2)
    k.fs.dirs.add("/run")
    # mark forks made by reexec(): the arbiter sets reexec_pid from fork() inside reexec
    o = sk.run_arbiter(cfgs(params["bind"], params["daemon"]), k)
    return k, o


def patch_reexec_marker():
    """Arbiter.reexec wrapped so that the kernel knows a fork inside it creates a master, not a worker."""
    import gunicorn.arbiter as A
    if getattr(A.Arbiter.reexec, "_verif_wrapped", False):
        return
    orig = A.Arbiter.reexec

    def reexec(self):
        self._in_reexec = True
        try:
            return orig(self)
        finally:
            self._in_reexec = False
    reexec._verif_wrapped = True
    reexec._orig = orig
    A.Arbiter.reexec = reexec


def old_judge(params, k, o, label=None):
    at = ("@" + label) if label else ""
    bad = []
    if o.end == "exception":
        return [("old:escaped-run:%s%s" % (o.exc.split(":")[0], at), "exception left Arbiter.run(): %s" % o.exc)]
    if any(t[0] == "log" and "Unhandled exception in main loop" in t[2] for t in k.trace):
        return [("old:main-loop-unhandled-exception" + at, "'Unhandled exception in main loop'")]
    arb = o.arbiter
    m2_forks = [t for t in k.trace if t[0] == "fork" and t[2] == "master2"]
    # replay the trace: at most one new master at any time
    alive_m2 = 0
    stopping = False
    for t in k.trace:
        if t[0] == "fork" and t[2] == "master2":
            alive_m2 += 1
            if alive_m2 > 1:
                bad.append(("old:second-upgrade-while-pending" + at, "a second new master was forked while the first one is still alive"))
                break
        if t[0] == "died" and any(p.pid == t[1] and p.kind == "master2" for p in list(k.procs.values()) + k.reaped):
            alive_m2 -= 1
    live_m2 = [p for p in k.children() if p.kind == "master2" and p.alive]
    if o.end == "horizon":
        if live_m2 and arb.reexec_pid != live_m2[0].pid:
            bad.append(("old:lost-track-of-new-master" + at, "a new master (pid %d) is alive but reexec_pid=%r" % (live_m2[0].pid, arb.reexec_pid)))
        if not live_m2 and arb.reexec_pid != 0:
            bad.append(("old:rollback-not-noticed" + at, "the new master is gone but reexec_pid=%r: further USR2 would be ignored" % (arb.reexec_pid,)))
        zombies = [p.pid for p in k.children() if p.zombie]
        if zombies:
            bad.append(("old:zombie-left" + at, "children %r dead but never reaped" % zombies))
        content = k.fs.snapshot().get(PIDFILE)
        if content != b"%d\n" % k.master_pid:
            bad.append(("old:pidfile-not-naming-master" + at, "pid file content %r while the old master runs" % (content,)))
        if any(t[0] == "listener-close" for t in k.trace):
            bad.append(("old:listener-closed" + at, "the old master closed a listener while running"))
        # the old master's own pool: the configured number, none after WINCH (daemon mode), the configured number again after HUP
        expected = 2
        for t in k.trace:
            if t[0] == "log" and t[2].startswith("Handling signal: "):
                sname = t[2].split(": ")[1]
                if sname == "winch" and params["daemon"]:
                    expected = 0
                elif sname == "hup":
                    expected = 2
        live_workers = [p.pid for p in k.children() if p.kind == "worker" and p.alive]
        if label is None and len(live_workers) != expected and arb.num_workers != expected:
            bad.append(("old:pool-size-after-winch-hup", "the old master should run %d workers (configured 2; WINCH empties the pool, HUP restores it): %d alive, num_workers=%r" % (
                expected, len(live_workers), arb.num_workers)))
        # a USR2 sent when no upgrade is pending must start one
        usr2_effective = 0
        pend = 0
        for t in k.trace:
            if t[0] == "fork" and t[2] == "master2":
                pend += 1
            elif t[0] == "died" and any(p.pid == t[1] and p.kind == "master2" for p in list(k.procs.values()) + k.reaped):
                pend -= 1
    elif o.end == "exit":
        unlinked = [t for t in k.trace if t[0] == "unlink-socket"]
        stop_asked = any(t[0] in ("event", "event-coalesced") and t[1] == "sig" and t[2] in ("TERM", "QUIT", "INT") for t in k.trace)
        worker_boot_failure = any(t[0] == "reaped" and t[2] in (3 << 8, 4 << 8) and any(p.pid == t[1] and p.kind == "worker" for p in k.reaped) for t in k.trace)
        if not stop_asked and not worker_boot_failure:
            bad.append(("old:master-exited-unasked" + at, "the old master exited with %r although nobody asked it to stop (a failing NEW master must not take the old one down)" % (o.code,)))
        # was a new master alive when the old one decided whether to unlink (= when it began to stop)?
        m2_alive_at_stop, m2_died_during_stop = _m2_at_stop(k)
        if params["bind"] == "unix" and not m2_died_during_stop:
            if m2_alive_at_stop and unlinked:
                bad.append(("old:unlinked-socket-in-use" + at, "the old master unlinked the unix socket path while the new master was alive"))
            if not m2_alive_at_stop and not unlinked and o.code == 0:
                bad.append(("old:socket-path-left" + at, "single master stopped without unlinking its unix socket"))
        if PIDFILE in k.fs.snapshot() and k.fs.snapshot()[PIDFILE] == b"%d\n" % k.master_pid:
            bad.append(("old:pidfile-left" + at, "old master exited, its pid file is still there"))
    return bad


def _m2_at_stop(k):
    """(a child master was alive when the stop signal began to be handled, one died between then and the socket close)"""
    alive = set()
    at_stop = None
    died_during = False
    m2 = {p.pid for p in list(k.procs.values()) + k.reaped if p.kind == "master2"}
    for t in k.trace:
        if t[0] == "fork" and t[2] == "master2":
            alive.add(t[1])
        elif t[0] == "died" and t[1] in m2:
            alive.discard(t[1])
            if at_stop is not None:
                died_during = True
        elif t[0] == "log" and t[2].startswith("Handling signal: ") and t[2].split(": ")[1] in ("term", "quit", "int") and at_stop is None:
            at_stop = bool(alive)
        elif t[0] == "listener-close":
            break
    return bool(at_stop), died_during


def _old_task(t):
    params, script, do_mid = t
    patch_reexec_marker()
    k, o = old_execute(params, script)
    out = {"runs": 1, "bad": [], "canon": None}
    for fp, text in old_judge(params, k, o):
        out["bad"].append((fp, text, script, None))
    if do_mid:
        start = k.quiescent_points[0] if k.quiescent_points else 0
        stop = k.script_done_point if k.script_done_point is not None else k.npoints
        for idx in range(start, min(stop, start + 300)):
            for ev in (("sig", "USR2"), ("exit-master2", 0), ("sig", "HUP"), ("exit", 0, 9)):
                k2, o2 = old_execute(params, script, inject={idx: ev})
                out["runs"] += 1
                label = k2.point_labels[idx] if idx < len(k2.point_labels) else "?"
                for fp, text in old_judge(params, k2, o2, label):
                    out["bad"].append((fp, text, script, (idx, ev, label)))
    return out


def exec_env_check(bind):
    """Runs the real child branch of reexec() (fork() returns 0) up to execvpe."""
    patch_reexec_marker()
    k = sk.Kernel(script=[("sig", "USR2")], settle=0)
    k.fs.dirs.add("/run")
    k.env["PRE_EXISTING"] = "1"
    cs = cfgs(bind)
    saved_env = [c.env_orig for c in cs]
    for c in cs:
        # the environment the old master was started with (Config snapshots it): configuration given through
        # GUNICORN_CMD_ARGS must reach the new master like everything else
        c.env_orig = dict(c.env_orig, PRE_EXISTING="1", GUNICORN_CMD_ARGS="--workers 1")

    def on_q(kern):
        # from the first quiescence on, the next fork is the re-exec fork: take the child branch
        kern.fork_returns_zero_once = True
    k.on_quiescent = on_q
    try:
        o = sk.run_arbiter(cs, k)
    finally:
        for c, e in zip(cs, saved_env):
            c.env_orig = e
    bad = []
    if not k.exec_calls:
        return [("exec:no-exec", "the child branch of reexec() did not reach execvpe (%s %s)" % (o.end, o.exc))]
    path, args, env = k.exec_calls[0]
    if env.get("GUNICORN_PID") != str(k.master_pid):
        bad.append(("exec:GUNICORN_PID", "GUNICORN_PID=%r, old master pid %d" % (env.get("GUNICORN_PID"), k.master_pid)))
    fds = ",".join(str(l.fileno()) for l in k.listeners)
    if env.get("GUNICORN_FD") != fds:
        bad.append(("exec:GUNICORN_FD", "GUNICORN_FD=%r, listener fds %r" % (env.get("GUNICORN_FD"), fds)))
    for var, val in (("PRE_EXISTING", "1"), ("GUNICORN_CMD_ARGS", "--workers 1")):
        if env.get(var) != val:
            bad.append(("exec:environment-not-passed-on", "the new master is executed with %s=%r; the old master was started with %r" % (var, env.get(var), val)))
    if any(l.closed for l in k.listeners):
        bad.append(("exec:listener-closed-before-exec", "a listener was closed in the child before exec"))
    return bad


# ---------------------------------------------------------------- new master ---------------------

NEW_EVENTS = [("parent-exit",), ("parent-killed",), ("parent-exit-subreaper",), ("sig", "USR2"), ("sig", "TERM"), ("sig", "QUIT"), ("exit", 0, 9), ("tick",),
              (("parent-exit",), ("sig", "TERM")), (("parent-exit",), ("sig", "USR2")), (("parent-exit-subreaper",), ("sig", "QUIT")),
              (("parent-exit",), ("sig", "USR2")), (("parent-exit",), ("sig", "TERM"))]
# (HUP to the not-yet-promoted new master is outside the property's quantifier and is not explored: see DESIGN.md, observations)
OLD_PID, NEW_PID = 100, 200


def new_execute(params, script, inject=None):
    fs = simfs.SimFS()
    fs.dirs.add("/run")
    ino = simfs.Inode()
    ino.data = b"%d\n" % OLD_PID
    fs.files[PIDFILE] = ino
    fs.live.add(OLD_PID)
    k = sk.Kernel(script=script, inject=inject, term="now", settle=2, env={"GUNICORN_PID": str(OLD_PID), "GUNICORN_FD": "7"},
                  ppid=OLD_PID, master_pid=NEW_PID, fs=fs)
    o = sk.run_arbiter(cfgs(params["bind"]), k)
    return k, o


def new_judge(params, k, o, label=None):
    at = ("@" + label) if label else ""
    bad = []
    if o.end == "exception":
        return [("new:escaped-run:%s%s" % (o.exc.split(":")[0], at), "exception left Arbiter.run(): %s" % o.exc)]
    if any(t[0] == "log" and "Unhandled exception in main loop" in t[2] for t in k.trace):
        return [("new:main-loop-unhandled-exception" + at, "'Unhandled exception in main loop'")]
    snap = k.fs.snapshot()
    cs = [t for t in k.trace if t[0] == "create-sockets"]
    if not cs or cs[0][1] != (7,):
        bad.append(("new:inherited-fds-not-adopted" + at, "create_sockets called with fds %r, GUNICORN_FD=7" % (cs[0][1] if cs else None,)))
    parent_gone = any(t[0] == "event" and t[1] in ("parent-exit", "parent-killed", "parent-exit-subreaper") for t in k.trace)
    m2_forks = [t for t in k.trace if t[0] == "fork" and t[2] == "master2"]
    if not parent_gone:
        if m2_forks:
            bad.append(("new:upgrade-started-while-parent-lives" + at, "USR2 to the new master started a third master although its parent still exists"))
        if snap.get(PIDFILE) != b"%d\n" % OLD_PID:
            bad.append(("new:parents-pidfile-touched" + at, "%s holds %r, the old master (pid %d) is alive" % (PIDFILE, snap.get(PIDFILE), OLD_PID)))
    if o.end == "horizon":
        if not parent_gone:
            if snap.get(PIDFILE + ".2") != b"%d\n" % NEW_PID:
                bad.append(("new:no-dot2-pidfile" + at, "%s.2 holds %r while both masters live" % (PIDFILE, snap.get(PIDFILE + ".2"))))
            if o.arbiter.master_pid != OLD_PID:
                bad.append(("new:forgot-parent" + at, "master_pid=%r" % (o.arbiter.master_pid,)))
        else:
            if snap.get(PIDFILE) != b"%d\n" % NEW_PID or (PIDFILE + ".2") in snap:
                bad.append(("new:promotion-pidfile" + at, "after the old master is gone: %s=%r, %s.2=%r" % (PIDFILE, snap.get(PIDFILE), PIDFILE, snap.get(PIDFILE + ".2"))))
            if o.arbiter.master_pid != 0:
                bad.append(("new:not-promoted" + at, "master_pid=%r after the parent exited" % (o.arbiter.master_pid,)))
            if "GUNICORN_PID" in k.env:
                bad.append(("new:GUNICORN_PID-kept" + at, "GUNICORN_PID still in the environment after promotion"))
        if any(t[0] == "listener-close" for t in k.trace):
            bad.append(("new:listener-closed" + at, "the new master closed a listener while running"))
        # USR2 once the parent is gone starts a further upgrade
        gone = False
        asked = False
        for t in k.trace:
            if t[0] == "event" and t[1] in ("parent-exit", "parent-killed", "parent-exit-subreaper"):
                gone = True
            elif t[0] == "event" and t[1] == "sig" and t[2] == "USR2" and gone:
                asked = True
        if asked and not m2_forks and label is None:
            bad.append(("new:upgrade-refused-although-parent-gone", "USR2 arrived after the old master's exit; no new master was started"))
    elif o.end == "exit":
        unlinked = [t for t in k.trace if t[0] == "unlink-socket"]
        # was the parent alive when the sockets were closed?
        parent_alive_at_stop = True
        for t in k.trace:
            if t[0] == "event" and t[1] in ("parent-exit", "parent-killed", "parent-exit-subreaper"):
                parent_alive_at_stop = False
            if t[0] == "listener-close":
                break
        promoted = any(t[0] == "log" and "promoted" in t[2] for t in k.trace)
        child_master_alive, child_died = _m2_at_stop(k)
        if params["bind"] == "unix":
            if parent_alive_at_stop and unlinked:
                bad.append(("new:unlinked-socket-in-use" + at, "the new master unlinked the unix socket path while the old master was alive"))
            gone_before_stop = False
            for t in k.trace:
                if t[0] == "event" and t[1] in ("parent-exit", "parent-killed", "parent-exit-subreaper"):
                    gone_before_stop = True
                if t[0] == "log" and t[2].startswith("Handling signal: ") and t[2].split(": ")[1] in ("term", "quit", "int"):
                    break
            if (promoted or (gone_before_stop and label is None)) and not unlinked and o.code == 0 and not child_master_alive and not child_died:
                bad.append(("new:socket-path-left" + at, "the master whose parent had gone (it is the only master left) stopped without unlinking its unix socket"))
        if (PIDFILE + ".2") in snap:
            bad.append(("new:dot2-pidfile-left" + at, "%s.2 left behind: %r" % (PIDFILE, snap[PIDFILE + ".2"])))
        if promoted and snap.get(PIDFILE) == b"%d\n" % NEW_PID:
            bad.append(("new:pidfile-left" + at, "promoted master exited, its pid file is still there"))
    return bad


def _new_task(t):
    params, script, do_mid = t
    patch_reexec_marker()
    k, o = new_execute(params, script)
    out = {"runs": 1, "bad": []}
    for fp, text in new_judge(params, k, o):
        out["bad"].append((fp, text, script, None))
    if do_mid:
        start = 0
        stop = k.script_done_point if k.script_done_point is not None else k.npoints
        for idx in range(start, min(stop, 250)):
            for ev in (("parent-exit",), ("parent-killed",), ("parent-exit-subreaper",), ("sig", "USR2"), ("sig", "TERM")):
                k2, o2 = new_execute(params, script, inject={idx: ev})
                out["runs"] += 1
                label = k2.point_labels[idx] if idx < len(k2.point_labels) else "?"
                for fp, text in new_judge(params, k2, o2, label):
                    out["bad"].append((fp, text, script, (idx, ev, label)))
    return out


def _task(t):
    return _old_task(t[1:]) if t[0] == "old" else _new_task(t[1:])


def sim_part(thorough):
    depth = 4 if thorough else 3
    tasks = []
    for bind in ("tcp", "unix"):
        for daemon in (False, True):
            params = {"bind": bind, "daemon": daemon}
            for n in range(1, depth + 1):
                for script in itertools.product(OLD_EVENTS, repeat=n):
                    # histories are about upgrades: they contain at least one USR2
                    flat = c03.flat(script)
                    if not any(e[0] == "sig" and e[1] == "USR2" for e in flat):
                        continue
                    if n == depth and not thorough and daemon and bind == "tcp":
                        continue
                    do_mid = n == 1 or (n == 2 and bind == "unix" and not daemon)
                    tasks.append(("old", params, list(script), do_mid))
        params = {"bind": bind, "daemon": False}
        for n in range(0, depth + 1):
            for script in itertools.product(NEW_EVENTS, repeat=n):
                tasks.append(("new", params, list(script), n <= 1))
    import time as _t
    t_sim = _t.time()
    res = []
    B = 3000
    for b0 in range(0, len(tasks), B):
        part = par.pmap(_task, tasks[b0:b0 + B], chunksize=8)
        res += part
        from vlib import findings as _f
        _known = set(_f.known_for("C14"))
        if any(("sim:" + b[0]) not in _known for r in part for b in (r.get("bad") or [])) and _t.time() - t_sim > 120:
            # violations are established; the remaining histories would repeat them (never taken on a tree where the property holds)
            tasks = tasks[:len(res)]
            break
    viols = {}
    runs = 0
    for t, r in zip(tasks, res):
        runs += r["runs"]
        for fp, text, sc, inj in r["bad"]:
            if fp not in viols:
                viols[fp] = violation("sim:" + fp, "%s master %r history=%r%s: %s" % (t[0], t[1], c03.ser(sc), (" mid-flight %r at #%d (%s)" % (inj[1], inj[0], inj[2])) if inj else "", text),
                                      {"part": "sim", "role": t[0], "params": t[1], "script": c03.ser(sc), "inject": [inj[0], list(inj[1])] if inj else None})
    for bind in ("tcp", "unix"):
        for fp, text in exec_env_check(bind):
            viols.setdefault(fp, violation("sim:" + fp, "bind=%s: %s" % (bind, text), {"part": "exec", "bind": bind}))
    return {"histories": len(tasks), "runs": runs + 2, "viols": list(viols.values())}


# ---------------------------------------------------------------- real masters -------------------

class Client(threading.Thread):
    def __init__(self, server):
        super().__init__(daemon=True)
        self.s = server
        self.stop_flag = False
        self.paused = False
        self.refused = []
        self.ok = 0

    def run(self):
        while not self.stop_flag:
            if self.paused:
                time.sleep(0.01)
                continue
            try:
                c = self.s.connect(timeout=5)
            except OSError as e:
                if not self.paused and not self.stop_flag:
                    self.refused.append((time.time(), type(e).__name__))
                time.sleep(0.01)
                continue
            try:
                c.sendall(b"GET /plain HTTP/1.1\r\nHost: h\r\nConnection: close\r\n\r\n")
                head, body, complete, closed = rp.read_response(c, 5)
                if complete:
                    self.ok += 1
            except OSError:
                pass
            finally:
                c.close()
            time.sleep(0.01)


def find_new_master(old, timeout=8):
    end = time.time() + timeout
    while time.time() < end:
        for p, st in rp.proc_children(old):
            if st != "Z" and rp.proc_children(p):
                return p
        time.sleep(0.05)
    return None


def alive(pid):
    st = rp.proc_status(pid)
    return st is not None and not st.get("State", "").startswith("Z")


def read_pid(path):
    try:
        return int(open(path).read().strip())
    except (OSError, ValueError):
        return None


REAL_STEPS = ("usr2-old", "term-new", "quit-new", "term-old", "quit-old", "hup-old", "usr2-new")


def real_histories(maxlen):
    out = []
    for n in range(1, maxlen + 1):
        for h in itertools.product(REAL_STEPS, repeat=n):
            # keep only histories that are meaningful: start with USR2, operate on masters that exist
            if h[0] != "usr2-old":
                continue
            old, new = True, False
            ok = True
            for step in h:
                who = step.split("-")[1]
                if who == "old" and not old:
                    ok = False
                if who == "new" and not new and step != "usr2-new":
                    ok = False
                if step == "usr2-new" and not new:
                    ok = False
                if step == "usr2-old" and old and not new:
                    new = True
                elif step in ("term-new", "quit-new"):
                    new = False
                elif step in ("term-old", "quit-old"):
                    old = False
                if not ok:
                    break
            if ok:
                out.append(h)
    return out


def real_cell(cell):
    bind, hist, wc = cell
    multi = bind == "multi"      # three listeners: tcp, a second tcp port, a unix socket - every one must be handed over
    if multi:
        s = rp.Server(worker_class=wc, workers=1, bind="tcp", graceful_timeout=2, timeout=30, extra_binds=1, extra_unix=True)
    else:
        s = rp.Server(worker_class=wc, workers=1, bind=bind, graceful_timeout=2, timeout=30)

    def unreachable_listeners():
        bad = []
        if not multi:
            return bad
        try:
            s.connect(timeout=2.0, extra=0).close()
        except OSError as e:
            bad.append("127.0.0.1:%d (%s)" % (s.extra_ports[0], type(e).__name__))
        try:
            c2 = socket.socket(socket.AF_UNIX, socket.SOCK_STREAM)
            c2.settimeout(2.0)
            c2.connect(s.extra_unix_path)
            c2.close()
        except OSError as e:
            bad.append("unix:%s (%s)" % (os.path.basename(s.extra_unix_path), type(e).__name__))
        return bad
    try:
        if not s.start():
            return ("infrastructure", "server did not start")
        old = s.master_pid
        new = None
        client = Client(s)
        client.start()
        time.sleep(0.2)
        v = None
        old_alive, new_alive = True, False
        promoted = False
        for step in hist:
            stops = {"term-new": "new", "quit-new": "new", "term-old": "old", "quit-old": "old"}.get(step)
            if stops and not (new_alive if stops == "old" else old_alive):
                client.paused = True          # the last living master is about to be stopped
                time.sleep(0.05)
            if step == "usr2-old":
                had_new = new_alive
                os.kill(old, signal.SIGUSR2)
                if had_new:
                    time.sleep(0.8)
                    kids = [p for p, st in rp.proc_children(old) if st != "Z" and rp.proc_children(p)]
                    if len(kids) > 1:
                        v = v or ("third-master", "a second USR2 while an upgrade is pending started another master: %r" % kids)
                else:
                    new = find_new_master(old)
                    if new is None:
                        return v or ("no-new-master", "USR2 did not produce a new master within 8 s: %s" % s.log_text()[-300:])
                    new_alive = True
                    time.sleep(0.3)
                    if s.pidfile and read_pid(s.pidfile + ".2") != new:
                        v = v or ("dot2-pidfile", "%s.2 holds %r, new master is %d" % (os.path.basename(s.pidfile), read_pid(s.pidfile + ".2"), new))
                    if s.pidfile and read_pid(s.pidfile) != old:
                        v = v or ("old-pidfile-during-upgrade", "pid file holds %r, old master is %d" % (read_pid(s.pidfile), old))
            elif step in ("term-new", "quit-new"):
                os.kill(new, signal.SIGTERM if step == "term-new" else signal.SIGQUIT)
                end = time.time() + 8
                while time.time() < end and alive(new):
                    time.sleep(0.05)
                if alive(new):
                    v = v or ("new-master-did-not-stop", "new master still alive 8 s after %s" % step)
                new_alive = False
                time.sleep(0.5)
                if old_alive:
                    if bind == "unix" and not os.path.exists(s.sockpath):
                        v = v or ("socket-file-removed-by-new-master", "the unix socket file vanished when the new master stopped; the old master still serves")
                    if s.pidfile and read_pid(s.pidfile) != old:
                        v = v or ("pidfile-after-rollback", "pid file holds %r after rollback, old master is %d" % (read_pid(s.pidfile), old))
                    if s.pidfile and os.path.exists(s.pidfile + ".2"):
                        v = v or ("dot2-pidfile-left", ".2 pid file left after the new master stopped")
            elif step in ("term-old", "quit-old"):
                os.kill(old, signal.SIGTERM if step == "term-old" else signal.SIGQUIT)
                end = time.time() + 8
                while time.time() < end and alive(old):
                    time.sleep(0.05)
                if alive(old):
                    v = v or ("old-master-did-not-stop", "old master still alive 8 s after %s" % step)
                old_alive = False
                try:
                    s.proc.wait(1)
                except Exception:
                    pass
                time.sleep(1.5)
                if new_alive:
                    if bind == "unix" and not os.path.exists(s.sockpath):
                        v = v or ("socket-file-removed-by-old-master", "the unix socket file vanished when the old master stopped; the new master still serves")
                    if s.pidfile and (read_pid(s.pidfile) != new or os.path.exists(s.pidfile + ".2")):
                        v = v or ("promotion-pidfile", "after the old master exited: pid file %r (new master %d), .2 exists: %s" % (
                            read_pid(s.pidfile), new, os.path.exists(s.pidfile + ".2")))
                    promoted = True
            elif step == "hup-old":
                os.kill(old, signal.SIGHUP)
                time.sleep(1.0)
                if not alive(old):
                    v = v or ("old-master-died-on-hup", "old master died after HUP during an upgrade")
            elif step == "usr2-new":
                os.kill(new, signal.SIGUSR2)
                time.sleep(1.5)
                kids = [p for p, st in rp.proc_children(new) if st != "Z" and rp.proc_children(p)]
                if old_alive and kids:
                    v = v or ("third-master", "USR2 to the new master while its parent lives started another master")
                if not old_alive and not kids:
                    # the promoted master is a full master: a further upgrade must work (the listeners must still be inheritable)
                    v = v or ("chained-upgrade-failed", "USR2 to the promoted master did not produce a running third-generation master: %s" % s.log_text()[-300:])
            if (old_alive or new_alive) and not v:
                # whoever lives must be reachable
                if not s.can_connect():
                    v = ("unreachable", "after step %s (history %r) nobody accepts connections although a master is alive" % (step, hist))
                elif unreachable_listeners():
                    v = ("listener-lost", "after step %s (history %r) a master is alive but the listener(s) %r are served by nobody" % (
                        step, hist, unreachable_listeners()))
            if not (old_alive or new_alive):
                client.paused = True
        client.stop_flag = True
        client.join(6)
        if client.refused and not v:
            v = ("refused-while-a-master-lives", "%d connection attempts failed while a master was alive (first %r), %d ok" % (len(client.refused), client.refused[0][1], client.ok))
        # final cleanup and end state
        # orderly: first the new master (if any), then the old one
        for p in (new, old):
            if p and alive(p):
                try:
                    os.kill(p, signal.SIGTERM)
                except OSError:
                    pass
                end = time.time() + 8
                while time.time() < end and alive(p):
                    time.sleep(0.05)
                time.sleep(0.6)
        time.sleep(0.3)
        if not v and "usr2-new" not in hist:
            if s.pidfile and (os.path.exists(s.pidfile) or os.path.exists(s.pidfile + ".2")):
                v = ("pidfile-left-at-the-end", "after all masters stopped: %r" % [f for f in os.listdir(s.dir) if "pid" in f])
            elif bind == "unix" and os.path.exists(s.sockpath):
                v = ("socket-file-left-at-the-end", "unix socket file still exists after every master stopped")
        return v
    finally:
        # the re-executed master left the original session's process group intact, but be thorough
        try:
            for p, _ in rp.session_members(s.proc.pid):
                os.kill(p, signal.SIGKILL)
        except Exception:
            pass
        s.cleanup()


def real_part(thorough, seed):
    hists = real_histories(4 if thorough else 3)
    cells = []
    for i, h in enumerate(hists):
        for bind in ("tcp", "unix"):
            if thorough or (i + (bind == "unix")) % 2 == 0 or len(h) <= 2:
                cells.append((bind, h, "sync" if (i % 4) else "gthread"))
    for h in (["usr2-old", "term-old"], ["usr2-old", "quit-old"], ["usr2-old", "term-new"], ["usr2-old", "term-old", "usr2-new"],
              ["usr2-old", "hup-old", "term-old"]):
        cells.append(("multi", h, "sync"))
        if thorough:
            cells.append(("multi", h, "gevent"))
    order = list(cells)
    random.Random(seed).shuffle(order)
    results = par.pmap(real_cell, order, jobs=14)
    viols = {}
    unconfirmed = []
    infra = 0
    for cell, v in zip(order, results):
        if v is None:
            continue
        v2 = real_cell(cell)
        if v2 is None or v2[0] != v[0]:
            unconfirmed.append({"cell": [cell[0], list(cell[1]), cell[2]], "first": v[0]})
            continue
        if v[0] == "infrastructure":
            infra += 1
            continue
        fp = "real:" + v[0]
        if fp not in viols:
            viols[fp] = violation(fp, "bind=%s worker=%s history=%r: %s" % (cell[0], cell[2], list(cell[1]), v[1]),
                                  {"part": "real", "cell": [cell[0], list(cell[1]), cell[2]]})
    return {"cells": len(cells), "histories": len(hists), "viols": list(viols.values()), "unconfirmed": unconfirmed, "infrastructure_failures": infra}


def run(ctx):
    t0 = time.time()
    sim = sim_part(ctx.thorough)
    t1 = time.time()
    real = real_part(ctx.thorough, ctx.seed)
    cov = {
        "evaluations": sim["runs"] + real["cells"],
        "distinct_nontrivial": sim["histories"] + real["cells"],
        "rule": "sim: every history (containing a USR2) over %d old-master events up to the depth bound and every history over %d new-master events, on tcp and unix "
                "binds, daemon on/off, short histories re-run with mid-flight events at every delivery point; real: every valid upgrade/rollback history up to the "
                "length bound on tcp and unix binds; all are upgrade scenarios" % (len(OLD_EVENTS), len(NEW_EVENTS)),
        "samples": [{"old": [["sig", "USR2"], ["sig", "HUP"], ["sig", "USR2"]]}, {"new": [["parent-exit"], ["sig", "TERM"]]},
                    {"real": ["unix", ["usr2-old", "term-new", "usr2-old", "term-old"]]}],
        "exhaustive": True,
        "sim_histories": sim["histories"], "sim_runs": sim["runs"], "real_histories": real["histories"], "real_cells": real["cells"],
        "real_unconfirmed": real["unconfirmed"], "real_infrastructure_failures": real["infrastructure_failures"],
        "sim_wall_s": round(t1 - t0, 1), "real_wall_s": round(time.time() - t1, 1),
    }
    return Result("exploration", cov, sim["viols"] + real["viols"],
                  ["the two masters are simulated one at a time against every environment answer of the other side (parent exit, child exit, inherited environment); "
                   "their concurrent execution is exercised by the real-process histories, not by an interleaving explorer",
                   "'never refused' is sampled by a client connecting every 10 ms in the real runs",
                   "a real-process anomaly counts only if it reproduces on an immediate serial re-run"])


def replay(case):
    if case["part"] == "real":
        c = case["cell"]
        v = real_cell((c[0], tuple(c[1]), c[2]))
        return violation("real:" + v[0], v[1], case) if v else None
    if case["part"] == "exec":
        bad = exec_env_check(case["bind"])
        return violation("sim:" + bad[0][0], bad[0][1], case) if bad else None
    patch_reexec_marker()
    script = c03.deser(case["script"])
    inj = {case["inject"][0]: tuple(case["inject"][1])} if case.get("inject") else None
    ex, jd = (old_execute, old_judge) if case["role"] == "old" else (new_execute, new_judge)
    k, o = ex(case["params"], script, inject=inj)
    label = None
    if inj:
        idx = case["inject"][0]
        label = k.point_labels[idx] if idx < len(k.point_labels) else "?"
    bad = jd(case["params"], k, o, label)
    if bad:
        return violation("sim:" + bad[0][0], bad[0][1] + "\ntrace tail %r" % (k.trace[-15:],), case)
    return None
