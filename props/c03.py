"""C03 - the master keeps exactly the configured number of live workers.

Decides by: explicit-state search over the REAL Arbiter.run() inside the simulated kernel
(vlib.simkernel).  States = quiescent points of the master (blocked in select, pipe empty),
canonicalised; transitions = one environment event (worker exits with a status, TTIN, TTOU, HUP,
tick, or a simultaneous pair) delivered at quiescence and run to the next quiescence; inside each
transition every mid-flight event at every delivery point (deviation bound 1) is enumerated too.
After each explored history the run continues for a settling period and the pool invariants are
evaluated."""
import random
import signal

from vlib import par, simkernel as sk
from vlib.runner import Result, violation

STATUSES = (0, 1 << 8, 9, 139)
BOOT = (3 << 8, 4 << 8)


def events_for(nlive, other=False):
    evs = []
    if other:
        evs.append(("exit-other", 0))
        if nlive:
            evs.append((("exit-other", 9), ("exit", 0, 9)))
            evs.append((("exit", nlive - 1, 0), ("exit-other", 0)))
    for r in range(min(nlive, 3)):
        for st in STATUSES:
            evs.append(("exit", r, st))
    if nlive:
        evs.append(("exit", 0, 3 << 8))
        evs.append(("exit", nlive - 1, 4 << 8))
    if nlive >= 2:
        evs.append(("exit2", 0, 1, 9))
        evs.append(("exit2", 0, 1, 3 << 8))
    for s in ("TTIN", "TTOU", "HUP"):
        evs.append(("sig", s))
    evs.append(("tick",))
    evs.append((("sig", "TTIN"), ("sig", "TTOU")))
    evs.append((("sig", "TTOU"), ("sig", "TTIN")))
    if nlive:
        evs.append((("exit", 0, 9), ("sig", "TTOU")))
        evs.append((("sig", "HUP"), ("exit", 0, 9)))
    return evs


MID_EVENTS = [("exit", 0, 9), ("exit", 1, 0), ("exit", 0, 3 << 8), ("sig", "TTIN"), ("sig", "TTOU"), ("sig", "HUP")]


def cfgs_for(params):
    workers, timeout, hupw = params["workers"], params["timeout"], params["hup_workers"]
    c0 = sk.make_cfg(workers=workers, timeout=timeout, graceful_timeout=2)
    c1 = sk.make_cfg(workers=hupw, timeout=timeout, graceful_timeout=2)
    return [c0, c1, c1, c1, c1, c1]


def flat(script):
    out = []
    for ev in script:
        if isinstance(ev[0], (tuple, list)):
            out += [tuple(e) for e in ev]
        else:
            out.append(tuple(ev))
    return out


def reference_num_workers(params, trace):
    n = params["workers"]
    for t in trace:
        if t[0] != "event":
            continue
        ev = t[1:]
        if ev[0] == "sig":
            if ev[1] == "TTIN":
                n += 1
            elif ev[1] == "TTOU":
                n = max(1, n - 1)
            elif ev[1] == "HUP":
                n = params["hup_workers"]
    return n


def canon(k, arb, o):
    if o.end != "horizon":
        return ("ended", o.end, o.code)
    tracked = sorted(dict.items(arb.WORKERS), key=lambda kv: kv[1].age)
    rows = []
    for pid, w in tracked:
        p = k.procs.get(pid)
        if p is None:
            rows.append(("gone", min(int(k.now - getattr(k.proc_of(w), "died_at", k.now)), 4) if k.proc_of(w) else 0, w.aborted))
        else:
            rows.append((p.alive, p.zombie, p.term_at is not None, w.aborted,
                         0 if p.alive else min(int(k.now - p.died_at), 4)))
    tracked_pids = {pid for pid, _ in tracked}
    untracked_live = sum(1 for p in k.children() if p.alive and p.pid not in tracked_pids)
    untracked_z = sum(1 for p in k.children() if p.zombie and p.pid not in tracked_pids)
    return (arb.num_workers, tuple(rows), untracked_live, untracked_z, tuple(arb.SIG_QUEUE), arb.app.i)


def judge(params, k, arb, o, inject_label=None):
    """Invariants for one finished run (history + settling).  Returns list of (fingerprint, text)."""
    bad = []
    at = ("@" + inject_label) if inject_label else ""
    boot_reaped = [t for t in k.trace if t[0] == "reaped" and t[2] in BOOT]
    if o.end == "exception":
        bad.append(("escaped-run:%s%s" % (o.exc.split(":")[0], at), "exception left Arbiter.run(): %s" % o.exc))
        return bad
    if not params["timeout"]:
        # timeout=0 switches the watchdog off (documented): the master never aborts a worker for being silent
        import signal as _sig
        ab = [x for x in k.kills if x[2] == _sig.SIGABRT]
        if ab:
            bad.append(("watchdog-active-although-disabled" + at, "timeout=0, yet the master sent SIGABRT to worker %d at t=+%.2f (its last heartbeat was %.1f s old at most)" % (
                ab[0][1], ab[0][0] - 1000.0, 0.4)))
            return bad
    if o.end == "exit":
        if any(t[0] == "log" and "Unhandled exception in main loop" in t[2] for t in k.trace):
            bad.append(("main-loop:unhandled-exception" + at, "the master hit 'Unhandled exception in main loop' and exited with %r" % (o.code,)))
            return bad
        if not boot_reaped:
            bad.append(("master-exited-unexpectedly" + at, "master exited with %r although no worker failed to boot" % (o.code,)))
            return bad
        want = sorted(set(t[2] >> 8 for t in boot_reaped))
        if o.code not in want:
            bad.append(("boot-error:wrong-exit-status" + at, "workers failed to boot with status %r, master exited with %r" % (want, o.code)))
        # nothing forked after the failing worker was reaped; every child alive then was told to stop and killed
        idx = k.trace.index(boot_reaped[0])
        later_forks = [t for t in k.trace[idx:] if t[0] == "fork"]
        if later_forks:
            bad.append(("boot-error:forked-again" + at, "forked %r after a worker failed to boot" % (later_forks,)))
        # (children that are still alive here are orphans: real workers notice the parent change and exit;
        #  the end state of a shutdown is C04's subject)
        return bad
    if o.end != "horizon":
        bad.append(("run-returned" + at, "Arbiter.run() returned (%s)" % o.end))
        return bad
    if boot_reaped:
        bad.append(("boot-error:not-halted" + at, "a worker exited with the boot-error status %d and the master keeps running" % (boot_reaped[0][2] >> 8)))
        return bad
    tracked = dict(dict.items(arb.WORKERS))
    tracked_pids = set(tracked)
    zombies = [p.pid for p in k.children() if p.zombie]
    if zombies:
        bad.append(("converge:zombie-left" + at, "children %r are dead but were never reaped" % zombies))
    untracked = [p.pid for p in k.children() if p.alive and p.pid not in tracked_pids and p.kind == "worker"]
    zombies = [z for z in zombies]
    if untracked:
        bad.append(("converge:untracked-child" + at, "live children %r are not in WORKERS" % untracked))
    dead_tracked = [pid for pid in tracked_pids if pid not in k.procs or not k.procs[pid].alive]
    if dead_tracked:
        bad.append(("converge:dead-worker-tracked" + at, "WORKERS still holds %r which are dead (never replaced)" % sorted(dead_tracked)))
    active = [pid for pid in tracked_pids if pid in k.procs and k.procs[pid].alive and k.procs[pid].term_at is None]
    ref = reference_num_workers(params, k.trace)
    if arb.num_workers != ref:
        bad.append(("num-workers:reference" + at, "num_workers=%d, reference count %d" % (arb.num_workers, ref)))
    elif not dead_tracked and not untracked:
        stuck = [pid for pid in tracked_pids if pid in k.procs and k.procs[pid].alive and k.procs[pid].term_at is not None]
        # workers that were told to stop and have not exited yet still occupy their slot in the master's eyes
        if not (len(active) <= ref <= len(active) + len(stuck)):
            bad.append(("converge:wrong-active-count" + at, "%d live workers that were not told to stop (+%d still stopping), target %d" % (
                len(active), len(stuck), ref)))
    r = retire_order_violation(k)
    if r:
        bad.append(("retire:not-oldest-first" + at, r))
    return bad


def retire_order_violation(k):
    """Surplus workers are retired oldest first (oldest by the kernel's birth order, not by the arbiter's own counters)."""
    termed = set()
    for (now, pid, sig, snap, alive) in k.kills:
        if sig == signal.SIGTERM:
            ages = {p: a for a, p in snap}
            if pid in ages:
                older = [p for a, p in snap if a < ages[pid] and p not in termed]
                # a worker that is already dead (zombie, or gone) does not count as 'older and kept'
                older = [p for p in older if p in k.procs and (k.procs[p].alive or getattr(k.procs[p], "died_at", 0) > now)]
                if older:
                    return "TERM sent to pid %d (birth rank %d) while older workers %r had not been told to stop" % (pid, ages[pid], older)
            termed.add(pid)
    return None


def execute(params, script, inject=None, settle=None):
    cf = cfgs_for(params)
    if settle is None:
        settle = 3 + (params["timeout"] + 2 if params["timeout"] else 0)
    # healthy workers heartbeat every 0.4 s: the last heartbeat is up to 0.4 s old, never "now" - with timeout=0
    # ("no watchdog", documented) that age must not matter
    k = sk.Kernel(script=script, inject=inject, term=params["term"], settle=settle, other_children=1 if params.get("other") else 0,
                  pid_order=params.get("pids", "ascending"), hb_gap=0.4)
    o = sk.run_arbiter(cf, k)
    return k, o


def _expand_task(t):
    """One BFS node: for each enabled event, (canon of successor, judged violations, point window)."""
    params, script = t
    k0, o0 = execute(params, script, settle=0)
    if o0.end != "horizon":
        return {"script": script, "succ": []}
    nlive = len(k0.live_ranked())
    out = []
    for ev in events_for(nlive, params.get("other")):
        s2 = list(script) + [ev]
        k1, o1 = execute(params, s2, settle=0)
        c = canon(k1, o1.arbiter, o1)
        k2, o2 = execute(params, s2)
        bad = judge(params, k2, o2.arbiter, o2)
        # delivery points of this last transition: from the quiescence at which ev was delivered to the end
        qp = k1.quiescent_points
        start = qp[len(script)] if len(qp) > len(script) else 0
        # (a window on the unchanged tree has well under 100 delivery points; a master gone wild - kill / respawn storm - has
        # thousands: the first 600 show what is wrong and the check stays bounded)
        end = min(k1.npoints, start + 600)
        out.append({"ev": ev, "canon": c, "bad": bad, "window": (start, end), "labels": k1.point_labels[start:end]})
    # startup window (no event yet): points 0 .. first quiescence
    return {"script": script, "succ": out, "startup": (0, k0.quiescent_points[0] if k0.quiescent_points else k0.npoints) if not script else None,
            "startup_labels": k0.point_labels[:k0.quiescent_points[0]] if (not script and k0.quiescent_points) else None}


def _mid_task(t):
    params, script, lo, hi = t
    n = 0
    bad_all = []
    outcomes = set()
    for idx in range(lo, hi):
        for ev in MID_EVENTS:
            k, o = execute(params, script, inject={idx: ev})
            n += 1
            label = k.point_labels[idx] if idx < len(k.point_labels) else "?"
            bad = judge(params, k, o.arbiter, o, inject_label=label)
            outcomes.add((o.end, o.code, len(dict.keys(o.arbiter.WORKERS)) if o.arbiter is not None else -1))
            for fp, text in bad:
                bad_all.append((fp, text, idx, ev, label))
    return {"n": n, "bad": bad_all, "outcomes": len(outcomes), "script": script}


def ser(script):
    return [list(map(list, ev)) if isinstance(ev[0], (tuple, list)) else list(ev) for ev in script]


def deser(script):
    return [tuple(tuple(e) for e in ev) if isinstance(ev[0], list) else tuple(ev) for ev in script]


def explore(params, depth, mid=True):
    seen = {}
    frontier = [[]]
    states = 1
    transitions = 0
    viols = {}
    mid_tasks = []
    samples = []

    def note(fp, text, script, inject=None):
        fp2 = fp + ":timeout=%s" % params["timeout"] if fp.startswith("converge:dead-worker-tracked") else fp
        if fp2 not in viols:
            viols[fp2] = violation(fp2, "workers=%(workers)d timeout=%(timeout)d term=%(term)s hup_workers=%(hup_workers)d" % params +
                                   " history=%r%s: %s" % (ser(script), (" mid-flight %r at delivery point #%d (%s)" % (inject[1], inject[0], inject[2])) if inject else "", text),
                                   {"params": params, "script": ser(script), "inject": [inject[0], list(inject[1])] if inject else None})

    for d in range(depth):
        res = par.pmap(_expand_task, [(params, s) for s in frontier])
        nxt = []
        for r in res:
            if r.get("startup") and mid:
                lo, hi = r["startup"]
                mid_tasks.append((params, [], lo, hi))
            for su in r["succ"]:
                transitions += 1
                s2 = r["script"] + [su["ev"]]
                for fp, text in su["bad"]:
                    note(fp, text, s2)
                if mid and d < depth:
                    lo, hi = su["window"]
                    mid_tasks.append((params, s2, lo, hi))
                if su["canon"] not in seen:
                    seen[su["canon"]] = s2
                    states += 1
                    if su["canon"][0] != "ended":
                        nxt.append(s2)
                    if len(samples) < 3 and d >= 1:
                        samples.append(ser(s2))
        frontier = nxt
        if not frontier:
            break
    mid_runs = 0
    mid_outcomes = 0
    if mid:
        # split long windows so that tasks are balanced
        tasks = []
        for (p, s, lo, hi) in mid_tasks:
            step = 12
            for a in range(lo, hi, step):
                tasks.append((p, s, a, min(hi, a + step)))
        import time as _t
        t_mid = _t.time()
        B = 4000
        for b0 in range(0, len(tasks), B):
            for r in par.pmap(_mid_task, tasks[b0:b0 + B], chunksize=4):
                mid_runs += r["n"]
                mid_outcomes += r["outcomes"]
                for fp, text, idx, ev, label in r["bad"]:
                    note(fp, text, r["script"], (idx, ev, label))
            if _unknown(viols) and _t.time() - t_mid > 90:
                # violations are already established: the rest of the product would only repeat them (on a tree where the
                # property holds there is nothing in `viols` and the product is always completed)
                break
    return {"states": states, "transitions": transitions, "mid_runs": mid_runs, "viols": list(viols.values()),
            "samples": samples, "mid_outcomes": mid_outcomes}


# ---------------------------------------------------------------- conformance with a real master ----

def _real_supported(script):
    for ev in flat(script):
        if ev[0] == "exit" and ev[2] not in (0, 9):
            return False
        if ev[0] in ("exit2",) and ev[3] != 9:
            return False
        if ev[0] not in ("exit", "exit2", "sig", "tick"):
            return False
    return True


def _conf_task(script):
    """Replays one simulated history on a real master; compares the number of live workers after settling."""
    import os
    import signal as sg
    import time
    from vlib import realproc as rp
    params = {"workers": 2, "timeout": 30, "term": "now", "hup_workers": 2}
    k, o = execute(params, script, settle=3)
    if o.end != "horizon":
        return None
    want = len([p for p in k.children() if p.alive and p.kind == "worker"])
    want_target = o.arbiter.num_workers
    s = rp.Server(worker_class="sync", workers=2, bind="unix", graceful_timeout=2, timeout=30)
    try:
        if not s.start():
            return ("infrastructure", "server did not start")
        time.sleep(0.4)
        for ev in script:
            evs = ev if isinstance(ev[0], (tuple, list)) else [ev]
            ws = sorted(s.workers())
            for e in evs:
                if e[0] == "exit":
                    if e[1] < len(ws):
                        os.kill(ws[e[1]], sg.SIGKILL if e[2] == 9 else sg.SIGTERM)
                elif e[0] == "exit2":
                    for r in (e[1], e[2]):
                        if r < len(ws):
                            os.kill(ws[r], sg.SIGKILL)
                elif e[0] == "sig":
                    os.kill(s.master_pid, getattr(sg, "SIG" + e[1]))
                elif e[0] == "tick":
                    time.sleep(1.1)
            time.sleep(0.7)
        # settle
        got = None
        end = time.time() + 6
        while time.time() < end:
            got = len(s.workers())
            if got == want:
                time.sleep(0.5)
                got = len(s.workers())
                if got == want:
                    break
            time.sleep(0.2)
        if s.proc.poll() is not None:
            return ("mismatch", "history %r: the real master exited (%r), the simulated one keeps running" % (ser(script), s.proc.returncode))
        if got != want:
            return ("mismatch", "history %r: %d live workers on the real master, %d in the simulation (target %d)" % (ser(script), got, want, want_target))
        return ("ok", "")
    finally:
        s.cleanup()


def conformance(n, seed=0):
    params = {"workers": 2, "timeout": 30, "term": "now", "hup_workers": 2}
    scripts = [[]]
    for d in range(2):
        nxt = []
        for sc in scripts:
            for ev in events_for(2):
                nxt.append(sc + [ev])
        scripts = scripts + nxt
    scripts = [sc for sc in scripts if sc and _real_supported(sc)]
    # deterministic spread over the history space
    step = max(1, len(scripts) // n)
    chosen = scripts[::step][:n]
    res = par.pmap(_conf_task, chosen, jobs=10)
    ok = sum(1 for r in res if r and r[0] == "ok")
    mism = [r for r in res if r and r[0] == "mismatch"]
    # a disagreement is re-run serially before it counts (real processes, wall-clock settling)
    confirmed = []
    for sc, r in zip(chosen, res):
        if r and r[0] == "mismatch":
            r2 = _conf_task(sc)
            if r2 and r2[0] == "mismatch":
                confirmed.append(r2[1])
            else:
                ok += 1
    return ok, confirmed


BOOT_FAILURES = {
    # name: (configuration lines, environment, exit statuses the master may end with)
    "post_worker_init-raises": (["def post_worker_init(worker):\n    raise RuntimeError('hook failed')"], {}, (3,)),
    "post_fork-raises": (["def post_fork(server, worker):\n    raise RuntimeError('hook failed')"], {}, (3,)),
    "application-import-fails": ([], {"VERIF_FAIL_IMPORT": "1"}, (3, 4)),
    "application-import-fails-preload": (["preload_app = True"], {"VERIF_FAIL_IMPORT": "1"}, (1, 3, 4)),
}


def boot_failure_cell(cell):
    """A worker that cannot boot, on a real master: the server must stop with a distinct status, not fork for ever."""
    from vlib import realproc as rp
    wc, kind = cell
    lines, env, statuses = BOOT_FAILURES[kind]
    s = rp.Server(worker_class=wc, workers=2, bind="unix", graceful_timeout=2, timeout=30, threads=2 if wc == "gthread" else None,
                  conf_lines=lines, env=env)
    try:
        s.start(attempts=1, wait=6.0)          # returns as soon as the master has exited or listens
        status = s.proc.poll()
        if status is None:
            try:
                status = s.proc.wait(6.0)
            except Exception:
                status = None
        boots = s.log_text().count("Booting worker with pid")
        if status is None:
            return ("boot-error:respawned-forever:real", "%s, %s worker: the master is still running after 12 s and has forked %d workers (log tail: %s)" % (
                kind, wc, boots, s.log_text()[-160:].replace("\n", " | ")))
        if status < 0:
            return None        # killed by the harness while it was already going down
        if status not in statuses:
            return ("boot-error:exit-status:real", "%s, %s worker: the master exited with status %r, expected one of %r" % (kind, wc, status, statuses))
        if boots > 8:
            return ("boot-error:many-forks-before-halt:real", "%s: %d workers were forked before the master gave up" % (kind, boots))
        return None
    finally:
        s.cleanup()


def boot_failure_part():
    cells = [(wc, kind) for wc in ("sync", "gthread", "gevent") for kind in BOOT_FAILURES]
    res = par.pmap(boot_failure_cell, cells, jobs=12)
    viols = []
    for cell, v in zip(cells, res):
        if v is None:
            continue
        v2 = boot_failure_cell(cell)          # a real-process anomaly counts only if it reproduces serially
        if v2 is None or v2[0] != v[0]:
            continue
        viols.append(violation(v[0], v[1], {"boot_failure": list(cell)}))
    return len(cells), viols


def _unknown(fps):
    """fingerprints that are not recorded known findings (those occur on the unchanged tree and must not cut the search short)"""
    from vlib import findings
    known = set(findings.known_for("C03"))
    return [fp for fp in fps if fp not in known]


def param_sets(thorough):
    P = []
    if thorough:
        for workers in (1, 2, 3):
            for timeout in (0, 2):
                for term in ("now", "late", "never"):
                    P.append({"workers": workers, "timeout": timeout, "term": term, "hup_workers": workers + 1 if workers < 3 else 2})
    else:
        for workers, timeout, term in ((1, 0, "now"), (1, 2, "now"), (2, 0, "now"), (2, 2, "now"), (2, 0, "late"), (2, 2, "late"), (2, 0, "never")):
            P.append({"workers": workers, "timeout": timeout, "term": term, "hup_workers": workers + 1})
    # the master also has a child that is not a worker (a helper forked by a server hook)
    P.append({"workers": 2, "timeout": 0, "term": "now", "hup_workers": 2, "other": True})
    # the kernel's pid counter wrapped around: younger workers have numerically lower pids
    P.append({"workers": 2, "timeout": 0, "term": "now", "hup_workers": 2, "pids": "descending"})
    return P


def run(ctx):
    depth = 4 if ctx.thorough else 3
    tot = {"states": 0, "transitions": 0, "mid_runs": 0}
    viols = []
    samples = []
    per = {}
    import time as _t
    t_run = _t.time()
    for params in param_sets(ctx.thorough):
        if _unknown(v["fingerprint"] for v in viols) and _t.time() - t_run > 300:
            break           # see explore(): only ever taken when violations other than the recorded findings have been found already
        d = depth if (params["term"] == "now" or ctx.thorough) else depth - 1
        st = explore(params, d, mid=(params["term"] != "never" or ctx.thorough))
        for k in tot:
            tot[k] += st[k]
        viols += st["viols"]
        samples += st["samples"][:1]
        per["w%(workers)d/t%(timeout)d/%(term)s" % params + ("/other" if params.get("other") else "") + ("/pids-descending" if params.get("pids") else "")] = [st["states"], st["transitions"], st["mid_runs"]]
    nboot, bviols = boot_failure_part()
    viols += bviols
    nconf, mism = conformance(40 if ctx.thorough else 12, ctx.seed)
    if mism and not viols:
        # no verdict is issued from a simulation that a real master contradicts
        raise AssertionError("simulated kernel disagrees with a real master: %r" % mism[:2])
    cov = {
        "states": tot["states"], "transitions": tot["transitions"],
        "traces_validated_against_impl": nconf,
        "real_boot_failure_cells": nboot,
        "samples": samples[:6],
        "midflight_runs": tot["mid_runs"],
        "evaluations": tot["transitions"] * 3 + tot["mid_runs"], "distinct_nontrivial": tot["states"],
        "rule": "state = canonical form of the master at quiescence (num_workers, per tracked worker by age rank: alive/zombie/told-to-stop/aborted/"
                "time-since-death bucket, untracked children, signal queue, config generation); transition = one environment event at quiescence; "
                "each transition is additionally re-run with one of %d mid-flight events at every delivery point of its window" % len(MID_EVENTS),
        "per_configuration_states_transitions_midruns": per,
        "depth_bound": depth, "deviation_bound_completed": 1,
        "exhaustive": True,
        "invariants": ["no zombie, no untracked child, no dead tracked worker after settling", "active workers == reference target",
                       "num_workers == fold of TTIN/TTOU/HUP", "surplus retired oldest-first", "boot-error status halts the master with that status",
                       "nothing but SystemExit leaves run()"],
    }
    return Result("model_checking", cov, viols,
                  ["workers are modelled processes (react to TERM now / late / never); the master is the real Arbiter code",
                   "Python-level signal handlers run at facade calls and at WORKERS accesses (delivery points), not between arbitrary bytecodes",
                   "healthy workers always have a fresh heartbeat (hangs are C11)",
                   "traces_validated_against_impl: explored histories (worker killed / asked to stop, TTIN, TTOU, HUP, ticks, pairs) replayed on a real master with real sync workers; "
                   "compared: the number of live workers after settling.  A disagreement is a harness error (exit 2), never a verdict"])


def replay(case):
    if "boot_failure" in case:
        v = boot_failure_cell(tuple(case["boot_failure"]))
        return violation(v[0], v[1], case) if v else None
    params = case["params"]
    script = deser(case["script"])
    inj = None
    label = None
    if case.get("inject"):
        inj = {case["inject"][0]: tuple(case["inject"][1])}
    k, o = execute(params, script, inject=inj)
    if inj:
        idx = case["inject"][0]
        label = k.point_labels[idx] if idx < len(k.point_labels) else "?"
    bad = judge(params, k, o.arbiter, o, inject_label=label)
    if bad:
        return violation(bad[0][0], bad[0][1] + "\ntrace: %r" % (k.trace[-25:],), case)
    return None
