"""C08 - only trusted peers can set scheme, script name or client address.

Decides by: the full product (per mechanism) of peer x allow-list configuration x header-map mode x
header set through the real worker handle(), and PROXY-line x allow-list x position-on-connection
on keep-alive connections of every worker; oracle: a reference mapping written from the
documentation (trusted => documented effect, untrusted => identical to the baseline without the
proxy-asserting headers)."""
import itertools
import os
import random

from vlib import bench, par, rfc_response
from vlib.runner import Result, violation

# IPv6 peer addresses are 4-tuples (host, port, flowinfo, scope_id), exactly as accept() returns them
PEERS = {"v4-local": ("127.0.0.1", 40001), "v4-other": ("10.9.9.9", 40002), "v6-local": ("::1", 40003, 0, 0),
         "v6-other": ("2001:db8::9", 40004, 0, 0), "unix": ""}
FAI = {"default": None, "star": "*", "other-peer": "10.9.9.9", "elsewhere": "192.0.2.1", "empty": ""}
FH = {"default": None, "x_foo": "X_FOO", "star": "*", "empty": ""}
SSH = {"default": None, "custom": {"X-MY-SCHEME": "tls"}, "none": {}}
HM = ("drop", "refuse")

HEADERS = [("X-Forwarded-Proto", "https"), ("X-Forwarded-Proto", "http"), ("X-Forwarded-Ssl", "on"),
           ("X-Forwarded-Protocol", "ssl"), ("X_Forwarded_Proto", "https"), ("x-forwarded-proto", "https"),
           ("X-My-Scheme", "tls"), ("Script-Name", "/s"), ("SCRIPT_NAME", "/s"), ("Script_Name", "/s"),
           ("script_name", "/s"), ("X-Foo", "1"), ("X_Foo", "2"), ("x_foo", "3"), ("PATH_INFO", "/pi"),
           ("X-Forwarded-Proto", " https"), ("X-Forwarded-Proto", "HTTPS"),
           # other token characters are legal in a field name: they are not '-' and must not fold into the same variable
           ("X.Foo", "4"), ("X~Foo", "5")]

DEFAULT_SSH = {"X-FORWARDED-PROTOCOL": "ssl", "X-FORWARDED-PROTO": "https", "X-FORWARDED-SSL": "on"}
DEFAULT_FAI = ["127.0.0.1", "::1"]
DEFAULT_FH = ["SCRIPT_NAME", "PATH_INFO"]


class App:
    def __init__(self):
        self.envs = []

    def __call__(self, environ, start_response):
        self.envs.append({k: v for k, v in environ.items() if isinstance(v, str)})
        start_response("200 OK", [("Content-Length", "2")])
        return [b"ok"]


def cfg_kw(fai, fh, ssh, hm, extra=None):
    kw = {"header_map": hm}
    if FAI[fai] is not None:
        kw["forwarded_allow_ips"] = FAI[fai]
    if FH[fh] is not None:
        kw["forwarder_headers"] = FH[fh]
    if SSH[ssh] is not None:
        kw["secure_scheme_headers"] = SSH[ssh]
    if extra:
        kw.update(extra)
    return kw


def split_list(v, default):
    if v is None:
        return default
    return [x.strip() for x in v.split(",") if x.strip()]


def reference(peer, fai, fh, ssh, hm, headers):
    """('reject', None) or ('ok', dict(scheme, script_name, path_info, http))  for target /s/x"""
    allow = split_list(FAI[fai], DEFAULT_FAI)
    trusted = "*" in allow or not isinstance(peer, tuple) or peer[0] in allow
    fwd = [x.upper() for x in split_list(FH[fh], DEFAULT_FH)] if trusted else []
    sec = ({k.upper(): v for k, v in SSH[ssh].items()} if SSH[ssh] is not None else DEFAULT_SSH) if trusted else {}
    votes = []
    http = {}
    script = ""
    for name, value in headers:
        u = name.upper()
        v = value.strip(" \t")
        if u in sec:
            votes.append(v == sec[u])
        if "_" in u:
            if u in fwd or "*" in fwd:
                pass
            elif hm == "drop":
                continue
            else:
                return "reject", None
        if u == "SCRIPT_NAME":
            script = v
        http.setdefault("HTTP_" + u.replace("-", "_"), []).append(v)
    if votes and len(set(votes)) > 1:
        return "reject", None
    scheme = "https" if (votes and votes[0]) else "http"
    path = "/s/x"
    if script and not path.startswith(script):
        return "reject", None
    return "ok", {"scheme": scheme, "script_name": script, "path_info": path[len(script):], "http": http}


def request(headers, target=b"/s/x", conn=None):
    h = b"GET " + target + b" HTTP/1.1\r\nHost: h\r\n"
    for n, v in headers:
        h += n.encode() + b": " + v.encode() + b"\r\n"
    if conn:
        h += b"Connection: " + conn + b"\r\n"
    return h + b"\r\n"


def header_sets(n):
    for r in range(0, n + 1):
        yield from itertools.product(HEADERS, repeat=r)


def judge_gate(peer, fai, fh, ssh, hm, headers, o, envs):
    if o.exc:
        return "exception-escaped-handle", o.exc
    kind, exp = reference(peer, fai, fh, ssh, hm, headers)
    if kind == "reject":
        if envs:
            return "app-called-for-refused-header-set", "reference refuses this header set; environ %r" % {
                k: v for k, v in envs[0].items() if k in ("wsgi.url_scheme", "SCRIPT_NAME", "PATH_INFO")}
        return None
    if not envs:
        return "request-refused-unexpectedly", "wire %r" % o.wire[:80]
    env = envs[0]
    if env.get("wsgi.url_scheme") != exp["scheme"]:
        return "scheme", "wsgi.url_scheme=%r expected %r" % (env.get("wsgi.url_scheme"), exp["scheme"])
    if env.get("SCRIPT_NAME") != exp["script_name"] or env.get("PATH_INFO") != exp["path_info"]:
        return "script-name", "SCRIPT_NAME=%r PATH_INFO=%r expected %r %r" % (
            env.get("SCRIPT_NAME"), env.get("PATH_INFO"), exp["script_name"], exp["path_info"])
    want_addr = peer[0] if isinstance(peer, tuple) else peer
    if env.get("REMOTE_ADDR") != want_addr:
        return "remote-addr", "REMOTE_ADDR=%r, peer is %r" % (env.get("REMOTE_ADDR"), want_addr)
    got = {k: v for k, v in env.items() if k.startswith("HTTP_") and k != "HTTP_HOST"}
    want = {k: ",".join(v) for k, v in exp["http"].items()}
    if got != want:
        return "header-map", "HTTP_* = %r expected %r" % (got, want)
    return None


GATE_WORKERS = [("sync", {}), ("gthread", {"keepalive": 0}), ("async", {"keepalive": 0})]


def _gate_task(t):
    wi, peer_k, fai, fh, ssh, hm, n = t
    kind, kw = GATE_WORKERS[wi]
    peer = PEERS[peer_k]
    app = App()
    kw = dict(kw)
    kw.update(cfg_kw(fai, fh, ssh, hm))
    b = bench.Bench(kind, kw, app)
    evals = 0
    nontriv = 0
    viols = {}
    try:
        for hs in header_sets(n):
            app.envs = []
            b.worker.alive = True
            o = b.connection(request(hs), peer=peer)
            evals += 1
            if hs:
                nontriv += 1
            v = judge_gate(peer, fai, fh, ssh, hm, hs, o, app.envs)
            if v and v[0] not in viols:
                viols[v[0]] = violation("gate:" + v[0], "worker=%s peer=%s forwarded_allow_ips=%s forwarder_headers=%s secure_scheme_headers=%s header_map=%s headers=%r: %s" % (
                    kind, peer_k, fai, fh, ssh, hm, hs, v[1]),
                    {"kind": "gate", "worker": wi, "peer": peer_k, "fai": fai, "fh": fh, "ssh": ssh, "hm": hm, "headers": [list(h) for h in hs]})
    finally:
        b.close()
    return {"evals": evals, "nontriv": nontriv, "viols": list(viols.values()), "key": repr(t)}


# ------------------------------------------------------------------ PROXY protocol ----------

PROXY_LINES = {"none": b"", "tcp4": b"PROXY TCP4 203.0.113.7 198.51.100.1 5555 80\r\n",
               "tcp6": b"PROXY TCP6 2001:db8::7 2001:db8::1 6666 443\r\n",
               "malformed": b"PROXY TCP4 203.0.113.7 80\r\n", "badproto": b"PROXY UDP4 203.0.113.7 198.51.100.1 5555 80\r\n"}
DECLARED = {"tcp4": ("203.0.113.7", "5555"), "tcp6": ("2001:db8::7", "6666")}
PAI = {"default": None, "star": "*", "other-peer": "10.9.9.9", "elsewhere": "192.0.2.1"}
PROXY_WORKERS = [("sync", {}), ("gthread", {"keepalive": 2, "threads": 1, "worker_connections": 4}),
                 ("async", {"keepalive": 2}), ("gthread", {"keepalive": 0}), ("async", {"keepalive": 0})]


def _proxy_task(t):
    wi, peer_k, pp, pai, line_k, late = t
    kind, kw = PROXY_WORKERS[wi]
    peer = PEERS[peer_k]
    kw = dict(kw)
    kw["proxy_protocol"] = pp
    if PAI[pai] is not None:
        kw["proxy_allow_ips"] = PAI[pai]
    app = App()
    b = bench.Bench(kind, kw, app)
    try:
        reqs = [request((), b"/r1"), request((), b"/r2"), request((), b"/r3", b"close")]
        if late:
            reqs[1] = PROXY_LINES["tcp4"] + reqs[1]
        data = PROXY_LINES[line_k] + b"".join(reqs)
        o = b.connection(data, peer=peer)
    finally:
        b.close()
    envs = app.envs
    allow = split_list(PAI[pai], ["127.0.0.1", "::1"])
    allowed = "*" in allow or not isinstance(peer, tuple) or peer[0] in allow
    peer_addr = peer[0] if isinstance(peer, tuple) else peer
    v = None
    if o.exc:
        v = ("exception-escaped-handle", o.exc)
    elif line_k != "none" and (not pp or not allowed or line_k in ("malformed", "badproto")):
        if envs:
            v = ("app-called-after-refused-proxy-line", "PROXY line %s, proxy_protocol=%s allowed=%s, but the application was called with REMOTE_ADDR=%r" % (
                line_k, pp, allowed, envs[0].get("REMOTE_ADDR")))
    else:
        if not envs:
            v = ("request-refused-unexpectedly", "wire %r" % o.wire[:80])
        else:
            want = DECLARED[line_k] if line_k != "none" else (peer_addr, None)
            for i, env in enumerate(envs):
                if env.get("REMOTE_ADDR") != want[0] or (want[1] is not None and env.get("REMOTE_PORT") != want[1]):
                    v = ("proxy-address-on-request-%d" % (i + 1), "request %d of the connection: REMOTE_ADDR=%r REMOTE_PORT=%r, expected %r" % (
                        i + 1, env.get("REMOTE_ADDR"), env.get("REMOTE_PORT"), want))
                    break
            if v is None and late and len(envs) > 1:
                v = ("late-proxy-line-accepted", "a PROXY line in front of request 2 was accepted (%d application calls)" % len(envs))
            if v is None and not late and kind != "sync" and kw.get("keepalive") and len(envs) != 3:
                v = ("keepalive-requests-lost", "%d application calls for 3 pipelined requests" % len(envs))
    viols = []
    if v:
        viols.append(violation("proxy:" + v[0] + ":" + kind, "worker=%s %r peer=%s proxy_protocol=%s proxy_allow_ips=%s line=%s late=%s: %s" % (
            kind, PROXY_WORKERS[wi][1], peer_k, pp, pai, line_k, late, v[1]),
            {"kind": "proxy", "t": list(t)}))
    return {"evals": 1, "nontriv": 1 if line_k != "none" or late else 0, "viols": viols, "key": repr(t)}


FAI_PG = {"declared4": "203.0.113.7", "declared6": "2001:db8::7", "other-peer": "10.9.9.9", "default": None, "star": "*",
          "declared+other": "203.0.113.7,10.9.9.9"}


def _pg_task(t):
    """A PROXY line AND proxy-asserting headers on one keep-alive connection: the PROXY line changes the client
    address the application sees, not who the connection's peer is - the header gate keeps judging the peer."""
    wi, peer_k, fai, line_k = t
    kind, kw = PROXY_WORKERS[wi]
    peer = PEERS[peer_k]
    kw = dict(kw)
    kw.update({"proxy_protocol": True, "proxy_allow_ips": "*"})
    if FAI_PG[fai] is not None:
        kw["forwarded_allow_ips"] = FAI_PG[fai]
    hs = (("X-Forwarded-Proto", "https"), ("SCRIPT_NAME", "/s"))
    app = App()
    b = bench.Bench(kind, kw, app)
    try:
        data = PROXY_LINES[line_k] + request(hs, b"/s/1") + request(hs, b"/s/2") + request(hs, b"/s/3", b"close")
        o = b.connection(data, peer=peer)
    finally:
        b.close()
    allow = split_list(FAI_PG[fai], DEFAULT_FAI)
    trusted = "*" in allow or not isinstance(peer, tuple) or peer[0] in allow
    want_scheme, want_script = ("https", "/s") if trusted else ("http", "")
    v = None
    if o.exc:
        v = ("exception-escaped-handle", o.exc)
    elif not app.envs:
        v = ("request-refused-unexpectedly", "wire %r" % o.wire[:80])
    else:
        for i, env in enumerate(app.envs):
            if env.get("wsgi.url_scheme") != want_scheme or env.get("SCRIPT_NAME") != want_script:
                v = ("gate-judges-declared-address-not-peer", "request %d: peer %r is %s forwarded_allow_ips=%r, PROXY line declares %s; "
                     "wsgi.url_scheme=%r SCRIPT_NAME=%r expected %r %r" % (
                         i + 1, peer, "in" if trusted else "NOT in", FAI_PG[fai], DECLARED[line_k][0], env.get("wsgi.url_scheme"),
                         env.get("SCRIPT_NAME"), want_scheme, want_script))
                break
            if env.get("REMOTE_ADDR") != DECLARED[line_k][0]:
                v = ("proxy-address-on-request-%d" % (i + 1), "REMOTE_ADDR=%r expected %r" % (env.get("REMOTE_ADDR"), DECLARED[line_k][0]))
                break
    viols = []
    if v:
        viols.append(violation("proxy+gate:" + v[0] + ":" + kind, "worker=%s %r peer=%s forwarded_allow_ips=%s line=%s: %s" % (
            kind, PROXY_WORKERS[wi][1], peer_k, fai, line_k, v[1]), {"kind": "pg", "t": list(t)}))
    return {"evals": 1, "nontriv": 1, "viols": viols, "key": repr(("PG",) + tuple(t))}


ENV_VALUES = ["10.9.9.9", "*", "192.0.2.1,2001:db8::9", ""]       # "" = defined but empty: nobody is trusted (documented)


def _env_child():
    """Runs in a fresh interpreter started with FORWARDED_ALLOW_IPS set (setting defaults are bound when gunicorn.config is
    imported): that variable is the documented default of forwarded_allow_ips - and of nothing else."""
    import json
    import os
    global DEFAULT_FAI
    DEFAULT_FAI = [x.strip() for x in os.environ["FORWARDED_ALLOW_IPS"].split(",") if x.strip()]
    out = []
    n = 0
    for peer_k in PEERS:
        for wi in (0, 2):
            for line_k in ("tcp4", "none", "tcp6"):
                r = _proxy_task((wi, peer_k, True, "default", line_k, False))
                n += r["evals"]
                out += r["viols"]
            for hm in HM:
                r = _gate_task((0 if wi == 0 else 1, peer_k, "default", "default", "default", hm, 1))
                n += r["evals"]
                out += r["viols"]
    print("\n@@RESULT@@" + json.dumps({"evals": n, "viols": out}))


def _env_task(t):
    import json
    import subprocess
    import sys
    (val,) = t
    env = dict(os.environ, FORWARDED_ALLOW_IPS=val)
    p = subprocess.run([sys.executable, "-c", "import sys; sys.path.insert(0, '/verif'); from props import c08; c08._env_child()"],
                       env=env, capture_output=True, text=True, cwd="/verif")
    if "@@RESULT@@" not in p.stdout:
        raise AssertionError("C08 env child failed: %s %s" % (p.stdout[-300:], p.stderr[-600:]))
    res = json.loads(p.stdout.split("@@RESULT@@", 1)[1])
    viols = []
    for v in res["viols"][:4]:
        v = dict(v)
        v["fingerprint"] = "env-default:" + v["fingerprint"]
        v["summary"] = "FORWARDED_ALLOW_IPS=%s in the environment: %s" % (val, v["summary"])
        v["case"] = {"kind": "env", "t": [val]}
        viols.append(v)
    return {"evals": res["evals"], "nontriv": res["evals"], "viols": viols, "key": repr(("E", val))}


def merges(a, b):
    """all interleavings of two event sequences preserving each one's order"""
    if not a:
        yield list(b)
        return
    if not b:
        yield list(a)
        return
    for m in merges(a[1:], b):
        yield [a[0]] + m
    for m in merges(a, b[1:]):
        yield [b[0]] + m


def _interleave_task(t):
    """Two keep-alive connections with different PROXY lines served concurrently by one worker."""
    wi, bline = t
    kind, kw = PROXY_WORKERS[wi]
    kw = dict(kw)
    kw.update({"proxy_protocol": True, "proxy_allow_ips": "*"})
    viols = []
    n = 0
    A = [("A", PROXY_LINES["tcp4"] + request((), b"/a1")), ("A", request((), b"/a2")), ("A", request((), b"/a3"))]
    B = [("B", PROXY_LINES[bline] + request((), b"/b1")), ("B", request((), b"/b2")), ("B", request((), b"/b3"))]
    want = {"A": DECLARED["tcp4"][0], "B": DECLARED[bline][0] if bline != "none" else "10.9.9.9"}
    for order in merges(A, B):
        app = App()
        b = bench.Bench(kind, kw, app)
        il = bench.Interleaver(b)
        try:
            opened = set()
            for name, data in order:
                if name not in opened:
                    il.open(name, PEERS["v4-local"] if name == "A" else PEERS["v4-other"])
                    opened.add(name)
                il.send(name, data)
            for name in ("A", "B"):
                il.close(name)
        finally:
            b.close()
        n += 1
        seq = "".join(x for x, _ in order)
        for env in app.envs:
            who = "A" if env["PATH_INFO"].startswith("/a") else "B"
            if env.get("REMOTE_ADDR") != want[who]:
                viols.append(violation("proxy:address-leaks-between-connections:" + kind,
                                       "worker=%s order=%s B-line=%s: request %s saw REMOTE_ADDR=%r, its connection declared %r" % (
                                           kind, seq, bline, env["PATH_INFO"], env.get("REMOTE_ADDR"), want[who]),
                                       {"kind": "interleave", "t": list(t), "order": seq}))
                break
        if len(app.envs) != 6 and not viols:
            viols.append(violation("proxy:interleaved-requests-lost:" + kind, "order=%s: %d application calls for 6 requests" % (seq, len(app.envs)),
                                   {"kind": "interleave", "t": list(t), "order": seq}))
    return {"evals": n, "nontriv": n, "viols": viols[:3], "key": repr(("I",) + t)}


def _task(t):
    if t[0] == "I":
        return _interleave_task(t[1:])
    if t[0] == "PG":
        return _pg_task(t[1:])
    if t[0] == "E":
        return _env_task(t[1:])
    return _proxy_task(t[1:]) if t[0] == "P" else _gate_task(t[1:])


def run(ctx):
    n_full = 3 if ctx.thorough else 2
    tasks = []
    for peer_k in PEERS:
        for fai in FAI:
            for fh in FH:
                for ssh in SSH:
                    for hm in HM:
                        tasks.append(("G", 0, peer_k, fai, fh, ssh, hm, 2))
                        if ctx.thorough and ssh == "default":
                            tasks.append(("G", 0, peer_k, fai, fh, ssh, hm, 3))
                        # the gate lives in code shared by all workers: other workers get single headers
                        tasks.append(("G", 1, peer_k, fai, fh, ssh, hm, 1))
                        tasks.append(("G", 2, peer_k, fai, fh, ssh, hm, 1))
    for wi in range(len(PROXY_WORKERS)):
        for peer_k in PEERS:
            for pp in (False, True):
                for pai in PAI:
                    for line_k in PROXY_LINES:
                        for late in (False, True):
                            tasks.append(("P", wi, peer_k, pp, pai, line_k, late))
    for wi in range(len(PROXY_WORKERS)):
        for peer_k in PEERS:
            for fai in FAI_PG:
                for line_k in DECLARED:
                    tasks.append(("PG", wi, peer_k, fai, line_k))
    for wi in (1, 2):
        for bline in ("tcp6", "none"):
            tasks.append(("I", wi, bline))
    for val in ENV_VALUES:
        tasks.append(("E", val))
    random.Random(ctx.seed).shuffle(tasks)
    res = par.pmap(_task, tasks, chunksize=2)
    res.sort(key=lambda r: r["key"])
    viols = [v for r in res for v in r["viols"]]
    cov = {
        "evaluations": sum(r["evals"] for r in res),
        "distinct_nontrivial": sum(r["nontriv"] for r in res),
        "rule": "gate: one case per (worker, peer, forwarded_allow_ips, forwarder_headers, secure_scheme_headers, header_map, ordered header set of <=2 "
                "(thorough 3) from %d headers); PROXY: one case per (worker+keepalive, peer, proxy_protocol, proxy_allow_ips, PROXY line kind, late PROXY line) on a "
                "3-request connection; non-trivial = at least one proxy-asserting header / PROXY line present" % len(HEADERS),
        "samples": [{"peer": "v4-other", "forwarded_allow_ips": "default", "headers": [["X-Forwarded-Proto", "https"], ["SCRIPT_NAME", "/s"]]},
                    {"peer": "v4-local", "proxy_protocol": True, "line": "tcp4", "requests": 3}],
        "exhaustive": True,
        "proxy_plus_gate_cells": sum(1 for t in tasks if t[0] == "PG"),
        "environment_default_runs": ["FORWARDED_ALLOW_IPS=" + v for v in ENV_VALUES],
        "gate_cells": sum(1 for t in tasks if t[0] == "G"), "proxy_cells": sum(1 for t in tasks if t[0] == "P"),
        "interleaved_two_connection_schedules": sum(r["evals"] for r in res if r["key"].startswith("('I'")),
    }
    return Result("exploration", cov, viols,
                  ["header_map=dangerous is a documented-unsafe mode and is not judged",
                   "unix-socket peers are documented as always trusted",
                   "a forwarder header listed in forwarder_headers may legitimately share its variable with its hyphenated spelling when the peer is trusted"])


def replay(case):
    if case["kind"] == "interleave":
        r = _interleave_task(tuple(case["t"]))
        return r["viols"][0] if r["viols"] else None
    if case["kind"] == "env":
        r = _env_task(tuple(case["t"]))
        return r["viols"][0] if r["viols"] else None
    if case["kind"] == "pg":
        r = _pg_task(tuple(case["t"]))
        return r["viols"][0] if r["viols"] else None
    if case["kind"] == "proxy":
        r = _proxy_task(tuple(case["t"]))
        return r["viols"][0] if r["viols"] else None
    kind, kw = GATE_WORKERS[case["worker"]]
    kw = dict(kw)
    kw.update(cfg_kw(case["fai"], case["fh"], case["ssh"], case["hm"]))
    app = App()
    b = bench.Bench(kind, kw, app)
    try:
        hs = tuple(tuple(h) for h in case["headers"])
        peer = PEERS[case["peer"]]
        o = b.connection(request(hs), peer=peer)
        v = judge_gate(peer, case["fai"], case["fh"], case["ssh"], case["hm"], hs, o, app.envs)
        if v:
            return violation("gate:" + v[0], v[1], case)
    finally:
        b.close()
    return None
