"""C07 - wsgi.input yields exactly the request body, and never the next request.

Decides by: all programs of length <= L over the input API (read/readline/readlines/next with sizes
around the 1024-byte refill) x bodies (lengths and newline layouts around 1024) x framings
(Content-Length, chunked in several layouts, extensions, trailers) x segmentations, on the real
RequestParser; oracle: io.BytesIO(body) call by call, then the pipelined next request."""
import io
import itertools
import random

from vlib import gparse, par
from vlib.runner import Result, violation

SIZES = [None, -1, 0, 1, 2, 1023, 1024, 1025, 5000]
OPS = [("read", n) for n in SIZES] + [("readline", n) for n in SIZES] + \
      [("readlines", None), ("readlines", 5), ("next", None)]
NEXT = b"GET /next HTTP/1.1\r\nHost: after\r\n\r\n"


def bodies(thorough):
    out = []
    lens = [0, 1, 2, 7, 1023, 1024, 1025, 2049, 3000]
    for n in lens:
        base = bytes((65 + i % 26) for i in range(n))
        pats = {"none": base}
        if n:
            b = bytearray(base)
            for i in range(6, n, 7):
                b[i] = 10
            pats["every7"] = bytes(b)
            b = bytearray(base)
            b[-1] = 10
            pats["last"] = bytes(b)
            b = bytearray(base)
            b[0] = 10
            pats["first"] = bytes(b)
        if n >= 1025:
            for at in (1022, 1023, 1024):
                b = bytearray(base)
                b[at] = 10
                pats["at%d" % at] = bytes(b)
        if n >= 4:
            b = bytearray(base)
            b[1:3] = b"\r\n"
            pats["crlf"] = bytes(b)
        if n in (7, 1025):
            # a bare CR is not a line end for a binary file object
            b = bytearray(base)
            b[2] = 13
            b[5] = 10
            pats["bare-cr"] = bytes(b)
        for k, v in pats.items():
            out.append(("%d/%s" % (n, k), v))
    return out


def chunked(body, size, ext=b"", trailer=b""):
    out = []
    for i in range(0, len(body), size):
        c = body[i:i + size]
        out.append(b"%x" % len(c) + ext + b"\r\n" + c + b"\r\n")
    out.append(b"0\r\n" + trailer + b"\r\n")
    return b"".join(out)


def framings(body):
    F = [("cl", b"POST /b HTTP/1.1\r\nContent-Length: %d\r\n\r\n" % len(body) + body)]
    h = b"POST /b HTTP/1.1\r\nTransfer-Encoding: chunked\r\n\r\n"
    if body:
        F.append(("chunked-one", h + chunked(body, len(body))))
        if len(body) <= 1025:
            F.append(("chunked-1", h + chunked(body, 1)))
        F.append(("chunked-7", h + chunked(body, 7)))
        F.append(("chunked-1024", h + chunked(body, 1024)))
        F.append(("chunked-ext-trailer", h + chunked(body, 1000, b";x=1", b"T: v\r\n")))
    else:
        F.append(("chunked-empty", h + chunked(body, 1)))
        F.append(("chunked-empty-trailer", h + chunked(body, 1, b"", b"T: v\r\n")))
    return F


def segmentations(stream, head_len, msg_len=None):
    yield "whole", [stream]
    if msg_len is not None and msg_len - 3 > head_len:
        # the read that completes the message (its trailer section, for chunked bodies) also carries the next request
        yield "split-before-end", [stream[:msg_len - 3], stream[msg_len - 3:]]
        yield "split-at-end", [stream[:msg_len], stream[msg_len:]]
    yield "bodystart", [stream[:head_len], stream[head_len:]]
    ch = [stream[i:i + 1] for i in range(head_len)] + \
         [stream[i:i + 1024] for i in range(head_len, len(stream), 1024)]
    yield "bytes+1024", ch
    ch = [stream[:head_len + 3]] + [stream[i:i + 1000] for i in range(head_len + 3, len(stream), 1000)]
    yield "1000-blocks", ch


def ref_call(bio, op, n):
    if op == "read":
        return bio.read(n)
    if op == "readline":
        return bio.readline(n) if n is not None else bio.readline()
    if op == "readlines":
        return None      # handled by caller
    if op == "next":
        line = bio.readline()
        return line if line else StopIteration


def run_program(chunks, body, prog, cfg):
    """Returns None or (fingerprint-part, text)."""
    p = gparse.RequestParser(cfg, iter(chunks), gparse.PEER)
    req = next(p)
    inp = req.body
    bio = io.BytesIO(body)
    for step, (op, n) in enumerate(prog):
        try:
            if op == "read":
                got = inp.read(n) if n is not None else inp.read()
            elif op == "readline":
                got = inp.readline(n) if n is not None else inp.readline()
            elif op == "readlines":
                got = inp.readlines(n) if n is not None else inp.readlines()
            else:
                try:
                    got = next(inp)
                except StopIteration:
                    got = StopIteration
        except Exception as e:
            return op, "step %d %s(%r) raised %s: %s" % (step, op, n, type(e).__name__, e)
        if op == "readlines":
            pos = bio.tell()
            rest = bio.read()
            joined = b"".join(got)
            # the hint may be honoured or ignored; either way whole lines from the current position
            if not rest.startswith(joined):
                return op, "step %d readlines(%r) returned %r.. not a prefix of the remaining body" % (step, n, joined[:30])
            exp_lines = io.BytesIO(joined).readlines()
            if list(got) != exp_lines:
                return op, "step %d readlines(%r) line structure differs" % (step, n)
            if n is None and joined != rest:
                return op, "step %d readlines() did not return the whole remaining body" % step
            if joined and not joined.endswith(b"\n") and len(joined) != len(rest):
                return op, "step %d readlines(%r) stopped inside a line" % (step, n)
            if n is not None and rest and not joined:
                return op, "step %d readlines(%r) returned nothing although data remains" % (step, n)
            bio.seek(pos + len(joined))
            continue
        exp = ref_call(bio, op, n)
        if got != exp:
            return op, "step %d %s(%r) returned %r (len %s), BytesIO gives %r (len %s)" % (
                step, op, n, got if got is StopIteration else got[:24], "-" if got is StopIteration else len(got),
                exp if exp is StopIteration else exp[:24], "-" if exp is StopIteration else len(exp))
    # the next request must start exactly after the body, whatever was consumed
    try:
        nxt = next(p)
    except Exception as e:
        return "next-request", "next request after the program failed: %s %s" % (type(e).__name__, e)
    if (nxt.method, nxt.uri, tuple(nxt.headers)) != ("GET", "/next", (("HOST", "after"),)):
        return "next-request", "next request parsed as %s %s %r" % (nxt.method, nxt.uri, nxt.headers)
    # and the first body is at end-of-file forever (it was drained by the parser)
    try:
        tail = (inp.read(), inp.readline(), inp.read(5))
    except Exception as e:
        return "eof", "reading at EOF raised %s" % type(e).__name__
    rest = bio.read()
    if tail != (b"", b"", b"") and not (tail[1:] == (b"", b"") and rest.startswith(tail[0])):
        return "eof", "after the next request was parsed, input still yields %r" % (tail,)
    try:
        next(p)
        return "next-request", "a third request appeared"
    except StopIteration:
        pass
    except Exception as e:
        return "next-request", "end of stream raised %s" % type(e).__name__
    return None


def programs(L):
    for n in range(0, L + 1):
        yield from itertools.product(OPS, repeat=n)


def _task(t):
    bname, body, L = t
    cfg = gparse.make_cfg()
    evals = 0
    nontriv = 0
    viols = {}
    for fname, stream in framings(body):
        head_len = stream.index(b"\r\n\r\n") + 4
        full = stream + NEXT
        for sname, chunks in segmentations(full, head_len, len(stream)):
            if sname != "whole" and len(body) == 0 and sname not in ("bodystart", "split-before-end", "split-at-end"):
                continue
            for prog in programs(L):
                evals += 1
                # non-trivial: the program does not simply read everything in one call
                if not (len(prog) == 1 and prog[0][0] == "read" and prog[0][1] in (None, -1)) and prog:
                    nontriv += 1
                r = run_program(chunks, body, prog, cfg)
                if r is not None:
                    kind = "cl" if fname == "cl" else "chunked"
                    fp = "input-api:%s:%s" % (r[0], kind)
                    if fp not in viols:
                        viols[fp] = violation(fp, "body=%s framing=%s seg=%s program=%r: %s" % (bname, fname, sname, list(prog), r[1]),
                                              {"body": body.decode("latin-1"), "framing": fname, "seg": sname,
                                               "prog": [[o, n] for o, n in prog]})
    return {"evals": evals, "nontriv": nontriv, "viols": list(viols.values()), "body": bname}


class EchoApp:
    def __call__(self, environ, start_response):
        body = environ["wsgi.input"].read()
        start_response("200 OK", [("Content-Length", str(len(body)))])
        return [body]


def interleaved_bodies():
    """Two connections served concurrently by ONE worker, their body reads interleaved: each application call must see
    its own body (the framing readers must not share state between connections)."""
    from vlib import bench
    from props.c08 import merges
    viols = []
    n = 0
    for kind, kw in (("async", {"keepalive": 2}), ("gthread", {"keepalive": 2, "threads": 2, "worker_connections": 4})):
        for framing in ("cl", "chunked"):
            bodies = {"A": b"a" * 700 + b"A" * 500, "B": b"b" * 300 + b"B" * 900}
            ev = {}
            for name, body in bodies.items():
                if framing == "cl":
                    head = b"POST /e HTTP/1.1\r\nHost: h\r\nContent-Length: %d\r\n\r\n" % len(body)
                    wire = head + body
                else:
                    wire = b"POST /e HTTP/1.1\r\nHost: h\r\nTransfer-Encoding: chunked\r\n\r\n" + chunked(body, 400)
                cutp = len(wire) - len(body) // 2
                ev[name] = [(name, wire[:cutp]), (name, wire[cutp:])]
            orders = list(merges(ev["A"], ev["B"]))
            if framing == "chunked":
                # also: each connection's stream cut in the middle of a chunk-size line (the reader waits inside the size line)
                ev2 = {}
                for name, body in bodies.items():
                    wire = b"POST /e HTTP/1.1\r\nHost: h\r\nTransfer-Encoding: chunked\r\n\r\n" + chunked(body, 400)
                    h = wire.index(b"\r\n\r\n") + 4
                    second_size = wire.index(b"\r\n190\r\n", h) + 3 if b"\r\n190\r\n" in wire[h:] else h + 1
                    ev2[name] = [(name, wire[:h + 1]), (name, wire[h + 1:second_size]), (name, wire[second_size:])]
                orders += list(merges(ev2["A"], ev2["B"]))
            for order in orders:
                b = bench.Bench(kind, kw, EchoApp())
                il = bench.Interleaver(b)
                try:
                    opened = set()
                    for name, data in order:
                        if name not in opened:
                            il.open(name, ("10.0.0.%d" % (1 + (name == "B")), 5))
                            opened.add(name)
                        il.send(name, data)
                    got = {}
                    for name in ("A", "B"):
                        c = il.close(name)
                        got[name] = c["wire"].split(b"\r\n\r\n", 1)[1] if b"\r\n\r\n" in c["wire"] else None
                finally:
                    b.close()
                n += 1
                for name in ("A", "B"):
                    if got[name] != bodies[name]:
                        viols.append(violation("input-api:bodies-of-concurrent-connections-mixed:%s" % framing,
                                               "worker=%s framing=%s order=%s: the application call on connection %s read %r.. (%s bytes), its request body is %r.. (%d bytes)" % (
                                                   kind, framing, "".join(x for x, _ in order), name, (got[name] or b"")[:12], len(got[name]) if got[name] is not None else None,
                                                   bodies[name][:12], len(bodies[name])), {"interleaved": True}))
                        break
    return viols[:2], n


def truncated_chunked():
    """A chunked body whose stream ends before the terminating chunk is not 'the framed body': no way of reading it may
    end in a clean end-of-file (the application would take a cut-off upload for a complete one)."""
    from gunicorn.http.parser import RequestParser
    viols = []
    n = 0
    cfg = gparse.make_cfg()
    body = b"line one\nline two\n" + b"z" * 2500
    for csize, trailer in ((7, b""), (1024, b""), (5000, b""), (1000, b"T: 1\r\n")):
        wire = b"POST /t HTTP/1.1\r\nHost: h\r\nTransfer-Encoding: chunked\r\n\r\n" + chunked(body, csize, trailer=trailer)
        head_len = wire.index(b"\r\n\r\n") + 4
        end = len(wire)
        cuts = sorted(set([head_len, head_len + 1, head_len + 3, head_len + 6, head_len + 20, head_len + 1100, end - 20, end - 8,
                           end - 5, end - 4, end - 3, end - 2, end - 1]))
        # judged only while the last-chunk line itself is incomplete: once '0 CRLF' is there every body byte has been
        # delivered and announced as the last one (a missing trailer terminator is an incomplete message, not a short body)
        last_chunk = end - len(b"0\r\n" + trailer + b"\r\n")
        for cut in cuts + [last_chunk, last_chunk + 1, last_chunk + 2, last_chunk - 1, last_chunk - 2]:
            if not head_len <= cut <= last_chunk + 2:
                continue
            for prog in ([("read", None)], [("read", 1000)], [("read", 1)], [("readline", None)], [("readline", 5)], [("readlines", None)], [("iter", None)]):
                for seg in ("whole", "bytes"):
                    data = wire[:cut]
                    chunks = [data] if seg == "whole" else [data[:head_len]] + [data[i:i + 1] for i in range(head_len, len(data))]
                    p_ = RequestParser(cfg, iter(chunks), ("127.0.0.1", 1))
                    req = next(p_)
                    n += 1
                    got = []
                    ended = None
                    try:
                        for _ in range(6000):
                            op, k = prog[0]
                            if op == "read":
                                d = req.body.read() if k is None else req.body.read(k)
                            elif op == "readline":
                                d = req.body.readline() if k is None else req.body.readline(k)
                            elif op == "readlines":
                                d = b"".join(req.body.readlines())
                            else:
                                d = b"".join(list(req.body))
                            got.append(d)
                            if not d:
                                ended = "eof"
                                break
                    except Exception as e:
                        ended = type(e).__name__
                    if ended == "eof":
                        viols.append(violation("input-api:truncated-chunked-body-reads-as-complete",
                                               "chunks of %d, stream ends %d bytes before the end of the message (%s reads): %s x N returned %d body bytes and then a clean "
                                               "end-of-file - the body has %d" % (csize, end - cut, seg, prog[0], len(b"".join(got)), len(body)), {"truncated": True}))
                        return viols, n
                    if not body.startswith(b"".join(got)):
                        viols.append(violation("input-api:truncated-chunked-body-wrong-bytes", "chunks of %d cut %d: pieces are not a prefix of the body" % (csize, cut),
                                               {"truncated": True}))
                        return viols, n
    return viols, n


class PartialApp:
    """Reads only `take` bytes of the request body (None = nothing at all) and answers."""

    def __init__(self):
        self.take = None
        self.calls = []

    def __call__(self, environ, start_response):
        got = b"" if self.take is None else environ["wsgi.input"].read(self.take)
        self.calls.append((environ["PATH_INFO"], got))
        out = b"got %d" % len(got)
        start_response("200 OK", [("Content-Length", str(len(out)))])
        return [out]


def worker_level_next_request():
    """The same promise through the real keep-alive loops of the workers (not the bare parser): whatever part of a body the
    application consumed, the next request on the connection is the next application call - also when the rest of the body and
    the next request arrive only after the response (Interleaver) or sit in the buffer already (one-shot)."""
    from vlib import bench
    viols = []
    n = 0
    for kind, kw in (("async", {"keepalive": 2}), ("gthread", {"keepalive": 2, "threads": 1, "worker_connections": 4})):
        for blen in (10, 3000, 20000, 2200000):
            body = (b"0123456789" * (blen // 10 + 1))[:blen - 17] + b"GET /evil HTTP/1." if blen > 20 else b"0123456789"
            body = body[:blen]
            for framing in ("cl", "chunked", "cl-GET", "chunked-GET", "cl-HEAD"):
                method = b"POST"
                if "-" in framing:
                    # a body is a body whatever the method
                    framing, m_ = framing.split("-")
                    method = m_.encode()
                    if blen > 3000:
                        continue
                if framing == "cl":
                    wire = method + b" /first HTTP/1.1\r\nHost: h\r\nContent-Length: %d\r\n\r\n" % len(body) + body
                else:
                    wire = method + b" /first HTTP/1.1\r\nHost: h\r\nTransfer-Encoding: chunked\r\n\r\n" + chunked(body, 1500 if blen < 100000 else 65536, trailer=b"T: 1\r\n")
                head_len = wire.index(b"\r\n\r\n") + 4
                nxt = b"GET /second HTTP/1.1\r\nHost: h\r\nConnection: close\r\n\r\n"
                for take in ((None, 0, 5, blen, blen + 100) if blen < 100000 else (None, 5)):
                    for late in ((None, head_len, head_len + 4, head_len + min(blen, 9000) // 2) if blen < 100000 else (None,)):
                        app = PartialApp()
                        app.take = take
                        b = bench.Bench(kind, kw, app)
                        try:
                            if late is None:
                                o = b.connection(wire + nxt)
                                exc = o.exc
                            else:
                                # the head and the first part of the body now, the rest (and the next request) once the
                                # handler waits for more bytes - for an application that does not read, after the response
                                il = bench.Interleaver(b)
                                il.open("A", ("10.0.0.1", 5))
                                il.send("A", wire[:late])
                                il.send("A", wire[late:] + nxt)
                                c = il.close("A")
                                exc = c["exc"]
                        finally:
                            b.close()
                        n += 1
                        paths = [p_ for p_, _g in app.calls]
                        want_first = b"" if take is None else body[:take]
                        bad = None
                        if exc:
                            bad = "handle() raised %s" % exc
                        elif not app.calls or app.calls[0] != ("/first", want_first):
                            bad = "first application call %r" % (app.calls[:1],)
                        elif paths != ["/first", "/second"]:
                            bad = "application calls %r, the connection carried /first and /second" % (paths,)
                        if bad:
                            viols.append(violation("input-api:next-request-through-worker:%s" % framing,
                                                   "worker=%s framing=%s body=%d bytes, application read %r, rest of the stream sent %s: %s" % (
                                                       kind, method.decode() + "/" + framing, blen, take, "at once" if late is None else "after %d bytes" % late, bad),
                                                   {"worker_level": True}))
                            break
                    if viols:
                        break
                if viols:
                    break
            if viols:
                break
        if len(viols) >= 2:
            break
    return viols[:2], n


def run(ctx):
    L = 3 if ctx.thorough else 2
    B = bodies(ctx.thorough)
    tasks = [(n, b, L) for n, b in B]
    # bodies beyond the 8192-byte discard block of Parser.__next__: programs of length <= 1
    big = []
    for n in (8191, 8192, 8193, 16384, 16385, 20000):
        base = bytearray(bytes((65 + i % 26) for i in range(n)))
        base[100] = 10
        base[8192 % n] = 10
        big.append(("%d/big" % n, bytes(base)))
    B = B + big
    tasks += [(n, b, 1) for n, b in big]
    if ctx.thorough:
        # depth 3 is heavy on long bodies: keep depth 3 for bodies up to 1025 bytes, depth 2 above
        tasks = [(n, b, 3 if len(b) <= 1025 else (2 if len(b) < 8000 else 1)) for n, b in B]
    random.Random(ctx.seed).shuffle(tasks)
    res = par.pmap(_task, tasks)
    res.sort(key=lambda r: r["body"])
    viols = [v for r in res for v in r["viols"]]
    iv, ni = interleaved_bodies()
    viols += iv
    wv, nw = worker_level_next_request()
    viols += wv
    tv, nt = truncated_chunked()
    viols += tv
    nw += nt
    cov = {
        "interleaved_two_connection_body_reads": ni,
        "worker_level_next_request_cells": nw,
        "evaluations": sum(r["evals"] for r in res) + ni + nw,
        "distinct_nontrivial": sum(r["nontriv"] for r in res),
        "rule": "every (body, framing, segmentation, program of <=L calls over %d operations) is one case; "
                "non-trivial = not the single call read()/read(-1)" % len(OPS),
        "samples": [{"body": B[0][0], "program": [["readline", 1023], ["read", 2]]},
                    {"body": B[-1][0], "program": [["read", 1024], ["next", None]]}],
        "exhaustive": True,
        "bodies": len(B), "operations": len(OPS), "max_program_length": L,
        "framings": ["cl", "chunked-one", "chunked-1", "chunked-7", "chunked-1024", "chunked-ext-trailer"],
        "segmentations": ["whole", "bodystart", "bytes+1024", "1000-blocks"],
    }
    return Result("exploration", cov, viols,
                  ["readlines(hint) may honour or ignore the hint (PEP 3333)",
                   "reference semantics: io.BytesIO over the framed body"])


def replay(case):
    if case.get("interleaved"):
        iv, _ = interleaved_bodies()
        return iv[0] if iv else None
    if case.get("truncated"):
        tv, _ = truncated_chunked()
        return tv[0] if tv else None
    if case.get("worker_level"):
        wv, _ = worker_level_next_request()
        return wv[0] if wv else None
    body = case["body"].encode("latin-1")
    cfg = gparse.make_cfg()
    for fname, stream in framings(body):
        if fname != case["framing"]:
            continue
        head_len = stream.index(b"\r\n\r\n") + 4
        for sname, chunks in segmentations(stream + NEXT, head_len, len(stream)):
            if sname == case["seg"]:
                prog = [(o, n) for o, n in case["prog"]]
                r = run_program(chunks, body, prog, cfg)
                if r:
                    return violation("input-api:%s:%s" % (r[0], "cl" if fname == "cl" else "chunked"), r[1], case)
    return None
