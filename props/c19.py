"""C19 - every handled request is logged once, truthfully, on a single line.

Decides by: (A) the C02 product request head x application program x worker, with a parseable access
log format: one record per completed application call, its status and byte count equal to what the
strict response reader counted on the wire, records attributable one-to-one and in order to the
requests sent; (B) hostile characters in every client-controlled place x every format atom x worker:
no CR/LF in a record, quoted atoms stay closed; (C) rejected requests: at most one record each."""
import base64
import random
import re
import shutil
import tempfile

from vlib import bench, par, rfc_response
from vlib.runner import Result, violation
from props import c02, c01

FMT = "%(s)s %(B)s %(b)s %(r)s"
REC = re.compile(r"(\d{3}|-) (\d+|None|-) (\d+|-) (.*)", re.S)

HOSTILE = ["\n", "\r", '"', "\\", "\x1b", "\x7f", "\x85", "\t", "%", "\x00", "\r\n", "\x0b"]
ATOMS = ["h", "l", "u", "t", "r", "s", "m", "U", "q", "H", "b", "B", "f", "a", "T", "D", "M", "L", "p",
         "{referer}i", "{x-custom}i", "{content-length}o", "{x-reflect}o", "{raw_uri}e", "{path_info}e", "{query_string}e",
         "{http_user_agent}e"]


class ClosingRaises:
    """A response iterable whose close() raises after the body was delivered completely."""

    def __init__(self, chunks):
        self.chunks = chunks

    def __iter__(self):
        return iter(self.chunks)

    def close(self):
        raise RuntimeError("close() failed")


class App19(c02.ProgApp):
    def __call__(self, environ, start_response):
        if environ["PATH_INFO"] == "/first" and self.prog[3] == "iter-close-raises":
            self.calls.append("/first")
            status, cl, chunks, _d, _f = self.prog
            headers = [("Content-Type", "text/plain")]
            if cl is not None:
                headers.append(("Content-Length", str(cl)))
            start_response(status, headers)
            return ClosingRaises(list(chunks))
        if environ["PATH_INFO"] == "/first" and self.prog[3] == "write-late-excinfo":
            # head and first bytes are out when an error path calls start_response again with exc_info; the call
            # re-raises (WSGI), the application swallows that and finishes the response it began
            import sys
            self.calls.append("/first")
            status, cl, chunks, _d, _f = self.prog
            headers = [("Content-Type", "text/plain")]
            if cl is not None:
                headers.append(("Content-Length", str(cl)))
            write = start_response(status, headers)
            write(chunks[0] if chunks else b"")
            try:
                raise ValueError("late")
            except ValueError:
                try:
                    start_response("500 Late Error", [("Content-Type", "text/plain")], sys.exc_info())
                except ValueError:
                    pass
            return list(chunks[1:])
        return super().__call__(environ, start_response)


MAXLEN = 2


def programs19(method):
    for prog in c02.programs(MAXLEN, method):
        if prog[4] is None:
            yield prog
            if prog[3] == "list":
                yield (prog[0], prog[1], prog[2], "iter-close-raises", None)
                yield (prog[0], prog[1], prog[2], "write-late-excinfo", None)


def judge_truth(key, prog, kind, o, calls):
    """records vs wire for one well-behaved (non-failing) program"""
    ver, method, conn = key
    if o.exc:
        return None
    resps, _ = rfc_response.read_all(o.wire, [method, b"GET"], o.server_closed, expect_continue=(0,) if conn == b"expect" else ())
    recs = o.access
    if len(recs) != len(calls):
        return "record-count", "%d access records for %d completed application calls: %r" % (len(recs), len(calls), recs)
    reqlines = [(method.decode() + " /first HTTP/" + ver.decode()), "GET /second HTTP/1.1"]
    for i, rec in enumerate(recs):
        if "\n" in rec or "\r" in rec:
            return "record-spans-lines", "record %r" % rec
        m = REC.fullmatch(rec)
        if not m:
            return "record-unparseable", "record %r" % rec
        if i >= len(resps) or not resps[i].complete:
            continue
        r = resps[i]
        if m.group(1) != str(r.code):
            return "status-untruthful", "record says %s, the client received %d" % (m.group(1), r.code)
        sent = len(r.body) if r.framing in ("length", "chunked", "close") else 0
        if m.group(2) != str(sent):
            return "bytes-untruthful:%s" % ("file" if (i == 0 and prog[3].startswith("file")) else "iter"), \
                "record says %s body bytes (B) / %s (b), the client received %d (program %r)" % (m.group(2), m.group(3), sent, prog)
        if m.group(3) != (str(sent) if sent else m.group(3)) or (sent and m.group(3) != str(sent)):
            return "bytes-untruthful-b", "b atom %s vs %d" % (m.group(3), sent)
        if m.group(4) != reqlines[i]:
            return "request-line-untruthful", "record %d names %r, request %d was %r" % (i, m.group(4), i, reqlines[i])
    return None


def _truth_task(t):
    global MAXLEN
    wi, shard, MAXLEN = t
    kind, kw = c02.WORKER_CFGS[wi]
    scratch = tempfile.mkdtemp(prefix="verif-c19-", dir="/dev/shm")
    app = App19(scratch)
    b = bench.Bench(kind, kw, app, access_format=FMT)
    evals = 0
    viols = {}
    try:
        for idx, (key, head) in enumerate(c02.heads()):
            if idx % c02.HEAD_SHARDS != shard:
                continue
            for prog in programs19(key[1]):
                b.worker.alive = True
                app.prog = prog
                app.calls = []
                o = b.connection(head + c02.SECOND)
                evals += 1
                v = judge_truth(key, prog, kind, o, list(app.calls))
                if v and v[0] not in viols:
                    viols[v[0]] = violation("truth:" + v[0], "worker=%s %r request=%r program=%r: %s" % (kind, kw, key, prog, v[1]),
                                            {"part": "truth", "worker": wi, "head": [k.decode() if k else None for k in key],
                                             "prog": [prog[0], prog[1], [c.decode() for c in prog[2]], prog[3], prog[4]]})
    finally:
        b.close()
        shutil.rmtree(scratch, ignore_errors=True)
    return {"evals": evals, "nontriv": evals, "viols": list(viols.values()), "key": repr(("T",) + t)}


# ------------------------------------------------------------------ hostile characters ------

class ReflectApp:
    def __init__(self):
        self.calls = 0

    def __call__(self, environ, start_response):
        self.calls += 1
        start_response("200 OK", [("Content-Length", "2"), ("X-Reflect", "fixed")])
        return [b"ok"]


def hostile_requests():
    """(label, request bytes) - every client-controlled place that the parser lets through"""
    for c in HOSTILE:
        cb = c.encode("latin-1")
        yield "target-raw", b"GET /p" + cb + b"q?x=" + cb + b"y HTTP/1.1\r\nHost: h\r\n\r\n"
        pct = b"".join(b"%%%02X" % x for x in cb)
        yield "target-pct", b"GET /p" + pct + b"q?x=" + pct + b"y HTTP/1.1\r\nHost: h\r\n\r\n"
        for hname in (b"Referer", b"User-Agent", b"X-Custom"):
            yield "header-" + hname.decode(), b"GET /h HTTP/1.1\r\nHost: h\r\n" + hname + b": a" + cb + b"b\r\n\r\n"
        user = ("us" + c + "er").encode("latin-1")
        tok = base64.b64encode(user + b":pw")
        yield "auth-user", b"GET /u HTTP/1.1\r\nHost: h\r\nAuthorization: Basic " + tok + b"\r\n\r\n"
        yield "method", b"GE" + cb + b"T /m HTTP/1.1\r\nHost: h\r\n\r\n"
    # credentials that are not base64 at all: bytes >= 0x80, stray characters, wrong padding
    for raw in (b"dXNlcjpw\xe9", b"\xe9\xe9\xe9\xe9", b"dXNlcjpw=\xa0", b"@@@@", b"dXNl cjpw", b"dXNlcjp", b"\xff"):
        yield "auth-raw", b"GET /u HTTP/1.1\r\nHost: h\r\nAuthorization: Basic " + raw + b"\r\n\r\n"


HOSTILE_WORKERS = [("sync", {}), ("gthread", {"keepalive": 0}), ("async", {"keepalive": 2})]


def _hostile_task(t):
    wi, fmt_i = t
    kind, kw = HOSTILE_WORKERS[wi]
    fmts = [None] + ['%%(%s)s' % a for a in ATOMS] + ['"%%(%s)s"' % a for a in ATOMS]
    fmt = fmts[fmt_i]
    app = ReflectApp()
    b = bench.Bench(kind, kw, app, access_format=fmt)
    evals = 0
    nontriv = 0
    viols = {}
    try:
        for label, data in hostile_requests():
            app.calls = 0
            b.worker.alive = True
            o = b.connection(data)
            evals += 1
            if app.calls:
                nontriv += 1
            v = None
            if o.exc:
                v = ("exception-escaped-handle", o.exc)
            elif len(o.access) > max(app.calls, 1):
                v = ("too-many-records", "%d records, %d application calls" % (len(o.access), app.calls))
            elif app.calls and len(o.access) != app.calls:
                v = ("record-count", "%d records for %d completed application calls" % (len(o.access), app.calls))
            else:
                for rec in o.access:
                    if "\n" in rec or "\r" in rec:
                        v = ("record-spans-lines:" + label, "format %r: record %r" % (fmt, rec))
                        break
                    if fmt and fmt.startswith('"'):
                        inner = rec[1:-1]
                        k = 0
                        bad = False
                        while k < len(inner):
                            if inner[k] == "\\":
                                k += 2
                                continue
                            if inner[k] == '"':
                                bad = True
                                break
                            k += 1
                        if bad or not (rec.startswith('"') and rec.endswith('"')):
                            v = ("quoted-atom-broken:" + label, "format %r: record %r" % (fmt, rec))
                            break
            if v and v[0] not in viols:
                viols[v[0]] = violation("hostile:" + v[0], "worker=%s request=%r: %s" % (kind, data[:100], v[1]),
                                        {"part": "hostile", "t": list(t), "data": data.decode("latin-1")})
    finally:
        b.close()
    return {"evals": evals, "nontriv": nontriv, "viols": list(viols.values()), "key": repr(("H",) + t)}


# ------------------------------------------------------------------ rejected requests -------

def _reject_task(t):
    wi, shard = t
    kind, kw = HOSTILE_WORKERS[wi]
    app = ReflectApp()
    b = bench.Bench(kind, kw, app, access_format=FMT)
    evals = nontriv = 0
    viols = {}
    NS = 4
    valid = b"GET /ok HTTP/1.1\r\nHost: h\r\n\r\n"
    try:
        def streams():
            yield from c01.gen_slot_c()
            yield from c01.gen_slot_a(1)
        for idx, data in enumerate(streams()):
            if idx % NS != shard:
                continue
            for stream in (data, valid + data):
                app.calls = 0
                b.worker.alive = True
                o = b.connection(stream)
                evals += 1
                # requests on the connection: completed application calls + at most one rejected
                v = None
                if len(o.access) > app.calls + 1:
                    v = ("too-many-records", "%d records, %d completed application calls + at most 1 rejected request" % (len(o.access), app.calls))
                else:
                    seen = []
                    for rec in o.access:
                        if "\n" in rec or "\r" in rec:
                            v = ("record-spans-lines:rejected", "record %r" % rec)
                            break
                        m = REC.fullmatch(rec)
                        if m:
                            seen.append(m.group(4))
                    # one-to-one: the same request line may be logged only as often as it was sent
                    if v is None:
                        for line in set(seen):
                            esc = stream.replace(b'"', b'\\"').replace(b"\r\n", b"\x00EOL").replace(b"\r", b"\\r").replace(b"\n", b"\\n")
                            sent = esc.count(line.encode("latin-1") + b"\x00EOL")
                            if seen.count(line) > max(sent, 0) and sent >= 0 and seen.count(line) > sent:
                                v = ("record-for-request-not-sent", "request line %r logged %d times, sent %d times" % (line, seen.count(line), sent))
                                break
                if len(o.access) != app.calls:
                    nontriv += 1
                if v and v[0] not in viols:
                    viols[v[0]] = violation("rejected:" + v[0], "worker=%s stream=%r: %s; records %r" % (kind, stream[:120], v[1], o.access),
                                            {"part": "rejected", "worker": wi, "data": stream.decode("latin-1")})
    finally:
        b.close()
    return {"evals": evals, "nontriv": nontriv, "viols": list(viols.values()), "key": repr(("R",) + t)}


class BigApp:
    def __init__(self):
        self.calls = 0
        self.mode = "list"

    def __call__(self, environ, start_response):
        self.calls += 1
        body = [b"x" * 70000] * 8
        start_response("200 OK", [("Content-Length", str(70000 * 8))] if self.mode != "chunked" else [])
        if self.mode == "write":
            w = start_response.__self__.write if False else None
        return iter(body)


def _gone_task(t):
    """The client disappears before or while the response is written: still at most one record for the one application call."""
    (wi,) = t
    kind, kw = c02.WORKER_CFGS[wi]
    app = BigApp()
    b = bench.Bench(kind, kw, app, access_format=FMT)
    viols = {}
    n = 0
    try:
        for mode in ("list", "chunked"):
            for ending in ("close", "reset", "reset-after-read"):
                for head in (b"GET /first HTTP/1.1\r\nHost: h\r\n\r\n", b"GET /first HTTP/1.0\r\n\r\n",
                             b"GET /first HTTP/1.1\r\nHost: h\r\n\r\nGET /first HTTP/1.1\r\nHost: h\r\n\r\n"):
                    app.calls = 0
                    app.mode = mode
                    b.worker.alive = True
                    o = b.connection(head, ending=ending)
                    n += 1
                    v = None
                    if len(o.access) > app.calls:
                        v = ("more-records-than-calls", "%d access records for %d application call(s), the client went away (%s) while the %d-byte response was written: %r" % (
                            len(o.access), app.calls, ending, 70000 * 8, o.access))
                    elif any(not REC.fullmatch(r) for r in o.access):
                        v = ("record-unparseable", "%r" % o.access)
                    if v and v[0] not in viols:
                        viols[v[0]] = violation("gone:" + v[0] + ":" + kind, "worker=%s %r: %s" % (kind, kw, v[1]), {"part": "gone", "worker": wi})
    finally:
        b.close()
    return {"evals": n, "nontriv": n, "viols": list(viols.values()), "key": repr(("G",) + t)}


def _channel_confs(scratch):
    import json
    base = {"version": 1, "disable_existing_loggers": False,
            "loggers": {"gunicorn.access": {"level": "INFO", "handlers": [], "propagate": False, "qualname": "gunicorn.access"}}}
    jpath = scratch + "/log.json"
    open(jpath, "w").write(json.dumps(base))
    ipath = scratch + "/log.ini"
    open(ipath, "w").write("[loggers]\nkeys=root,gunicorn.error,gunicorn.access\n[handlers]\nkeys=null\n[formatters]\nkeys=f\n[logger_root]\nlevel=INFO\nhandlers=null\n"
                           "[logger_gunicorn.error]\nlevel=INFO\nhandlers=null\npropagate=0\nqualname=gunicorn.error\n"
                           "[logger_gunicorn.access]\nlevel=INFO\nhandlers=null\npropagate=0\nqualname=gunicorn.access\n"
                           "[handler_null]\nclass=logging.NullHandler\nargs=()\n[formatter_f]\nformat=%(message)s\n")
    return {
        "accesslog": ({"accesslog": "-"}, True),
        "logconfig_dict": ({"accesslog": None, "logconfig_dict": base}, True),
        "logconfig_json": ({"accesslog": None, "logconfig_json": jpath}, True),
        "logconfig": ({"accesslog": None, "logconfig": ipath}, True),
        "syslog": ({"accesslog": None, "syslog": True}, True),
        "syslog-without-access": ({"accesslog": None, "syslog": True, "disable_redirect_access_to_syslog": True}, False),
        "none": ({"accesslog": None}, False),
    }


def _channels_task(t):
    """Every way of switching the access log on (and the ways of leaving it off): one record per completed request / none."""
    (wi,) = t
    kind, kw0 = HOSTILE_WORKERS[wi]
    scratch = tempfile.mkdtemp(prefix="verif-c19-", dir="/dev/shm")
    viols = []
    n = 0
    try:
        for cname, (ckw, on) in _channel_confs(scratch).items():
            for statsd in (False, True):
                kw = dict(kw0)
                kw.update(ckw)
                if statsd:
                    kw["statsd_host"] = "localhost:8125"
                app = ReflectApp()
                try:
                    b = bench.Bench(kind, kw, app, access_format=FMT)
                except Exception as e:
                    viols.append(violation("channels:logger-setup-failed:%s" % cname, "%s: %s: %s" % (cname, type(e).__name__, e), {"part": "channels", "worker": wi}))
                    continue
                try:
                    o = b.connection(b"GET /one HTTP/1.1\r\nHost: h\r\n\r\nGET /two HTTP/1.1\r\nHost: h\r\nConnection: close\r\n\r\n")
                finally:
                    b.close()
                n += 1
                want = app.calls if on else 0
                if len(o.access) != want:
                    viols.append(violation("channels:record-count:%s" % cname, "worker=%s access logging configured through %s%s: %d application calls, %d access records (expected %d): %r" % (
                        kind, cname, " + statsd" if statsd else "", app.calls, len(o.access), want, o.access[:3]), {"part": "channels", "worker": wi}))
    finally:
        shutil.rmtree(scratch, ignore_errors=True)
        import logging
        logging.getLogger("gunicorn.access").handlers = []
    return {"evals": n, "nontriv": n, "viols": viols[:3], "key": repr(("C",) + t)}


def _task(t):
    return {"T": _truth_task, "H": _hostile_task, "R": _reject_task, "G": _gone_task, "C": _channels_task}[t[0]](t[1:])


def run(ctx):
    tasks = [("T", wi, s, 3 if ctx.thorough else 2) for wi in range(len(c02.WORKER_CFGS)) for s in range(c02.HEAD_SHARDS)]
    nf = 1 + 2 * len(ATOMS)
    tasks += [("H", wi, f) for wi in range(len(HOSTILE_WORKERS)) for f in range(nf)]
    tasks += [("R", wi, s) for wi in range(len(HOSTILE_WORKERS)) for s in range(4)]
    tasks += [("G", wi) for wi in range(len(c02.WORKER_CFGS))]
    tasks += [("C", wi) for wi in range(len(HOSTILE_WORKERS))]
    random.Random(ctx.seed).shuffle(tasks)
    res = par.pmap(_task, tasks)
    res.sort(key=lambda r: r["key"])
    viols = [v for r in res for v in r["viols"]]
    cov = {
        "evaluations": sum(r["evals"] for r in res),
        "distinct_nontrivial": sum(r["nontriv"] for r in res),
        "rule": "truth: (worker config, request head, non-failing C02 program); hostile: (worker, format = default / each of %d atoms bare and quoted, "
                "%d hostile strings in target raw / percent-encoded / 3 headers / basic-auth user / method); rejected: C01 request-line and "
                "framing corpus alone and after a valid request; non-trivial = application called (hostile), record count differs from calls (rejected), all (truth)" % (
                    len(ATOMS), len(HOSTILE)),
        "samples": ["GET /p\\nq?x=\\ny HTTP/1.1", "Authorization: Basic base64('us\\ner:pw')", {"program": ["200 OK", None, ["a", "bc"], "file", None]}],
        "exhaustive": True,
        "truth_cells": sum(r["evals"] for r in res if r["key"].startswith("('T'")),
        "hostile_cells": sum(r["evals"] for r in res if r["key"].startswith("('H'")),
        "rejected_cells": sum(r["evals"] for r in res if r["key"].startswith("('R'")),
    }
    return Result("exploration", cov, viols,
                  ["a record is one line for consumers that split on CR or LF",
                   "applications that raise are not judged (the property speaks of calls that complete)",
                   "byte counts are compared with the body bytes a strict client-side reader decodes"])


def replay(case):
    if case["part"] == "gone":
        r = _gone_task((case["worker"],))
        return r["viols"][0] if r["viols"] else None
    if case["part"] == "channels":
        r = _channels_task((case["worker"],))
        return r["viols"][0] if r["viols"] else None
    if case["part"] == "hostile":
        r = _hostile_task(tuple(case["t"]))
        return r["viols"][0] if r["viols"] else None
    if case["part"] == "rejected":
        kind, kw = HOSTILE_WORKERS[case["worker"]]
        app = ReflectApp()
        b = bench.Bench(kind, kw, app, access_format=FMT)
        try:
            o = b.connection(case["data"].encode("latin-1"))
            if len(o.access) > app.calls + 1:
                return violation("rejected:too-many-records", repr(o.access), case)
        finally:
            b.close()
        return None
    wi = case["worker"]
    kind, kw = c02.WORKER_CFGS[wi]
    key = tuple(k.encode() if k is not None else None for k in case["head"])
    p = case["prog"]
    prog = (p[0], p[1], tuple(c.encode() for c in p[2]), p[3], p[4])
    scratch = tempfile.mkdtemp(prefix="verif-c19-", dir="/dev/shm")
    app = App19(scratch)
    b = bench.Bench(kind, kw, app, access_format=FMT)
    try:
        app.prog = prog
        o = b.connection(dict(c02.heads())[key] + c02.SECOND)
        v = judge_truth(key, prog, kind, o, list(app.calls))
        if v:
            return violation("truth:" + v[0], v[1], case)
    finally:
        b.close()
        shutil.rmtree(scratch, ignore_errors=True)
    return None
