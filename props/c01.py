"""C01 - request framing is RFC 9112-exact (no smuggling).

Decides by: exhaustive enumeration of connection byte streams from (1) a slot grammar
(request line x ordered sets of framing field lines x body syntax x a pipelined marker request) and
(2) every one of the 256 byte values substituted at / inserted before every offset of seed streams,
each fed whole to the real RequestParser under every listed safe configuration, every accepted
request's body drained.  Oracle: vlib.rfc_request (independent strict reader, three-valued)."""
import glob
import itertools
import os
import random

from vlib import gparse, par, rfc_request
from vlib.runner import Result, violation

NEXT = b"GET /next HTTP/1.1\r\nHost: n\r\n\r\n"

CONFIGS = {
    "default": {},
    "refuse": {"header_map": "refuse"},
    "small-limits": {"limit_request_line": 200, "limit_request_fields": 6, "limit_request_field_size": 100},
    "proxy": {"proxy_protocol": True, "proxy_allow_ips": "*"},
    "anymethod": {"permit_unconventional_http_method": True},
    "casefold": {"casefold_http_method": True, "permit_unconventional_http_method": True},
}

# ---------------------------------------------------------------- comparison ---------------


def judge(data, cfgname, reqs, end_kind):
    """Lock-step comparison of gunicorn's request sequence with the oracle's.
    Returns (violation-or-None, outcome_class)."""
    oms = rfc_request.read_stream(data, proxy_protocol=(cfgname == "proxy"))
    casefold = cfgname == "casefold"
    cls = []
    for i, r in enumerate(reqs):
        method, uri, version, _h, body, body_err, _t, off, _n = r
        if i >= len(oms):
            last = oms[-1] if oms else None
            if last is None:
                return ("phantom-request", "request %d produced from an empty stream" % i), "phantom"
            if last.verdict == "NOREAD":
                return None, ",".join(cls) + "|unjudged"
            why = last.body_reason or last.reason or "end-of-stream"
            if last.verdict in ("F", "D") and last.body_status == "ok" and not last.no_further:
                return ("phantom-request", "request %d (%s %s) but the stream has only %d message(s)" % (
                    i, method, uri, len(oms))), "phantom"
            return ("request-after:" + why, "request %d (%s %s) handed out although message %d ended the usable stream (%s)" % (
                i, method, uri, len(oms) - 1, why)), "after"
        om = oms[i]
        if om.verdict == "NOREAD":
            return None, ",".join(cls) + "|unjudged"
        if om.verdict == "INCOMPLETE":
            return ("request-from-incomplete-head", "request %d handed out but its head is incomplete (%s)" % (i, om.reason)), "bad"
        if om.verdict == "R":
            return ("accepted-must-reject:" + om.reason, "request %d (%s %s) handed out; strict reading: MUST reject (%s)" % (
                i, method, uri, om.reason)), "bad"
        cls.append(om.verdict)
        gm = method.encode("latin-1")
        if (gm.upper() != om.method.upper()) if casefold else (gm != om.method):
            return ("method-differs", "request %d method %r vs %r" % (i, method, om.method)), "bad"
        if uri.encode("latin-1") != om.target:
            return ("target-differs", "request %d target %r vs %r" % (i, uri, om.target)), "bad"
        if tuple(version) != om.version:
            return ("version-differs", "request %d version %r vs %r" % (i, version, om.version)), "bad"
        if body is None:
            cls.append("unread")
            continue            # the application left the body alone: only the sequence of requests is compared
        if om.body_status == "ok":
            if body_err is not None:
                cls.append("over-reject-body")
                continue
            if body != om.body:
                return ("body-differs:" + (om.reason or "framed"),
                        "request %d body %r, strict reading %r" % (i, body[:40], om.body[:40])), "bad"
            if off != om.end:
                return ("end-offset-differs:" + (om.reason or "framed"),
                        "request %d ends at %s, strict reading ends at %s" % (i, off, om.end)), "bad"
        elif om.body_status == "reject":
            if body_err is None:
                return ("accepted-bad-body:" + om.body_reason,
                        "request %d body %r read to its end without error; strict reading: malformed (%s)" % (
                            i, body[:40], om.body_reason)), "bad"
            if not om.body.startswith(body):
                return ("body-not-prefix:" + om.body_reason, "request %d body %r not a prefix of %r" % (i, body[:40], om.body[:40])), "bad"
            cls.append("body-reject")
        else:   # incomplete
            if body_err is None and om.body_reason in ("chunk-size-line", "chunk-data", "chunk-terminator"):
                return ("truncated-chunked-body-read-as-complete", "request %d: the stream ends inside the chunked body (%s), yet the body was read to a clean end: %r" % (
                    i, om.body_reason, body[:40])), "bad"
            if body_err is None and not om.body.startswith(body):
                return ("body-not-prefix:" + om.body_reason, "request %d body %r not a prefix of %r" % (i, body[:40], om.body[:40])), "bad"
            cls.append("body-incomplete")
    tail = end_kind
    if len(reqs) < len(oms) and oms[len(reqs)].verdict in ("F", "D") and end_kind == "reject":
        tail = "over-reject"
    return None, ",".join(cls) + "|" + tail


def check_stream(data, cfgname, cuts=(), program=None):
    """cuts: offsets at which the stream is cut into separate reads; program: how the application reads each body
    (None = read() to the end).  The oracle reads the whole stream: framing must not depend on either."""
    cfg = gparse.make_cfg(**CONFIGS[cfgname])
    reqs, kind, exc, text = gparse.parse_stream(gparse.cut(data, cuts), cfg, program=program)
    v, oc = judge(data, cfgname, reqs, kind)
    if v is None:
        return None, oc
    fp, summary = v
    extra = ""
    if cuts or program:
        fp = ("seg:" if cuts else "api:") + fp
        extra = " cuts=%s program=%s" % (list(cuts), program)
    return violation(fp, "cfg=%s stream=%r%s: %s" % (cfgname, data[:120], extra, summary),
                     {"data": data.decode("latin-1"), "cfg": cfgname, "cuts": list(cuts),
                      "program": [list(x) for x in program] if program else None}), oc


# ---------------------------------------------------------------- generators ---------------

CL_VALUES = [b"5", b"05", b"+5", b"-5", b"5 ", b" 5", b"5,5", b"5, 5", b"0x5", b"5\x0b", b"\xb2", b"",
             b"5\t", b"0", b"5\rX", b"5\nX", b"5\x00", b"\xb5", b"5.0", b"5e0", b"\x0b5", b"\xa05"]
TE_VALUES = [b"chunked", b"Chunked", b"\tchunked", b"chunked\t", b"\x0bchunked", b"chunked\x0c", b"chunked\xa0",
             b"\x85chunked", b"chunked,", b",chunked", b"chunked, chunked", b"gzip, chunked", b"chunked, gzip",
             b"identity, chunked", b"chunked, identity", b"xchunked", b"chunked;q=1", b'"chunked"', b"chunk ed",
             b"gzip", b"identity", b"chunked\x1f", b"\x1cchunked", b"chun\x00ked", b"chunked\rX", b"deflate,chunked",
             b"x-gzip, chunked", b"gzip;q=1, chunked", b"chunked ; x", b"\xa0gzip, chunked", b"foo, chunked", b"", b","]


def framing_lines():
    L = []
    for v in CL_VALUES:
        L.append(b"Content-Length: " + v)
    for v in TE_VALUES:
        L.append(b"Transfer-Encoding: " + v)
    L += [b"Transfer-Encoding : chunked", b"Transfer-Encoding\t: chunked", b" Transfer-Encoding: chunked",
          b"Transfer_Encoding: chunked", b"Transfer-Encoding\x0b: chunked", b"Content-Length\x00: 5",
          b"Content-Length : 5", b"Content_Length: 5", b"content-length: 5", b"TRANSFER-ENCODING: CHUNKED",
          b"Transfer-Encoding:chunked", b"Content-Length:5", b": x", b"X(y): z", b"Transfer-Encoding", b"\tchunked",
          b" 5", b"Host: x", b"X: a\x00b", b"Transfer-Encoding\xa0: chunked", b"Content-Length\r: 5",
          # persistence tokens (a connection that must not carry a further request may be asked to stay open)
          b"Connection: keep-alive", b"Connection: close",
          # names the header map drops or refuses: the value grammar applies to them all the same
          b"X_Pad: ok", b"X_Pad: a\x00b", b"X_Pad: a\rb", b"X_Pad: a\nTransfer-Encoding: chunked", b"X_Pad : v", b"Content_Length: 5\x00"]
    return L


BODIES = [b"5\r\nhello\r\n0\r\n\r\n", b"hello", b"", b"0\r\n\r\n"]


def gen_fieldsets(max_lines):
    FL = framing_lines()
    for n in range(0, max_lines + 1):
        for combo in itertools.product(FL, repeat=n):
            yield combo


def gen_slot_a(max_lines):
    """ordered framing field sets x version x body"""
    for combo in gen_fieldsets(max_lines):
        head_fields = b"".join(l + b"\r\n" for l in combo)
        for ver in (b"HTTP/1.1", b"HTTP/1.0"):
            for body in BODIES:
                yield b"POST /a " + ver + b"\r\n" + head_fields + b"\r\n" + body + NEXT


SIZE_LINES = [b"3", b"03", b"3;x", b"3 ;x", b"3\t;x", b"3 ", b" 3", b"0x3", b"+3", b"-3", b"", b"3\nabc", b"g", b"3;x\ny",
              b"3;", b"3 ; x=\"a;b\"", b"\x0b3", b"3\x0b", b"3\r", b"00000003", b"3 x", b"\xb3"]
CHUNK_TERMS = [b"\r\n", b"\n", b"", b"\rX", b"X\r\n", b"\r\r\n"]
LAST_CHUNKS = [b"0\r\n", b"00\r\n", b"0;x\r\n", b"", b"0 \r\n", b"0\n", b"-0\r\n", b"0x0\r\n"]
TRAILERS = [b"\r\n", b"T: 1\r\n\r\n", b"T: 1\r\n 2\r\n\r\n", b"T x: 1\r\n\r\n", b"Content-Length: 3\r\n\r\n", b"T: a\x00\r\n\r\n",
            b"T\r\n\r\n", b"\n", b"T: 1\r\n"]


def gen_slot_b():
    """chunked body grammar under a plain Transfer-Encoding: chunked head"""
    head = b"POST /c HTTP/1.1\r\nTransfer-Encoding: chunked\r\n\r\n"
    for sl in SIZE_LINES:
        for term in CHUNK_TERMS:
            for last in LAST_CHUNKS:
                for tr in TRAILERS:
                    yield head + sl + b"\r\nabc" + term + last + tr + NEXT
    # two data chunks, second one odd
    for sl in SIZE_LINES:
        for tr in TRAILERS:
            yield head + b"1\r\nz\r\n" + sl + b"\r\nabc\r\n0\r\n" + tr + NEXT


REQ_LINES = [b"GET / HTTP/1.1", b"GET / HTTP/1.0", b"GET / HTTP/1.2", b"GET / HTTP/2.0", b"GET / HTTP/0.9",
             b"GET / HTTP/1.10", b"GET / HTTP/01.1", b"GET / http/1.1", b"GET  / HTTP/1.1", b"GET / HTTP/1.1 ",
             b" GET / HTTP/1.1", b"GET /\tHTTP/1.1", b"GET / HTTP/1.1\n", b"GET /a b HTTP/1.1", b"get / HTTP/1.1",
             b"G(T / HTTP/1.1", b"GET / HTTP/1.\xb2", b"GET /\r HTTP/1.1", b"GET /\nX: y HTTP/1.1", b"PROXY TCP4 1.1.1.1 2.2.2.2 1 2",
             b"M-SEARCH * HTTP/1.1", b"GET http://h/p HTTP/1.1", b"OPTIONS * HTTP/1.1", b"", b"GET /", b"GET / HTTP/1.1\r"]
C_FIELDSETS = [b"", b"Content-Length: 5\r\n", b"Transfer-Encoding: chunked\r\n", b"Connection: close\r\n",
               b"Content-Length: 5\r\nConnection: keep-alive\r\n"]


def gen_slot_c():
    for rl in REQ_LINES:
        for fs in C_FIELDSETS:
            for body in (b"hello", b"5\r\nhello\r\n0\r\n\r\n", b""):
                yield rl + b"\r\n" + fs + b"\r\n" + body + NEXT
                yield NEXT + rl + b"\r\n" + fs + b"\r\n" + body + NEXT


SEEDS = [
    b"POST /a HTTP/1.1\r\nContent-Length: 5\r\n\r\nhello" + NEXT,
    b"POST /a HTTP/1.1\r\nTransfer-Encoding: chunked\r\n\r\n5\r\nhello\r\n0\r\n\r\n" + NEXT,
    b"POST /a HTTP/1.1\r\nTransfer-Encoding: gzip, chunked\r\n\r\n3;e=1\r\nabc\r\n0\r\nT: 1\r\n\r\n" + NEXT,
    b"GET /a HTTP/1.0\r\nConnection: keep-alive\r\nContent-Length: 2\r\n\r\nhi" + NEXT,
    b"POST /a HTTP/1.1\r\nContent-Length: 3\r\nTransfer-Encoding: chunked\r\n\r\n3\r\nabc\r\n0\r\n\r\n" + NEXT,
    b"POST /a HTTP/1.1\r\nHost: h\r\nTransfer-Encoding: identity\r\nContent-Length: 2\r\n\r\nhi" + NEXT,
    b"PUT /b HTTP/1.1\r\nTransfer-Encoding: chunked\r\n\r\n1\r\na\r\n2\r\nbc\r\n0\r\n\r\n" + NEXT,
    b"GET /c HTTP/1.1\r\nX: y\r\n\r\n" + NEXT,
]
PROXY_SEED = b"PROXY TCP4 10.0.0.1 10.0.0.2 1111 80\r\nPOST /a HTTP/1.1\r\nContent-Length: 2\r\n\r\nhi" + NEXT


PROXY2 = b"PROXY TCP4 6.6.6.6 10.0.0.2 2222 80\r\n"


def gen_proxy_positions():
    """a PROXY line is connection preamble: in front of the first request only - anywhere later it is not a request line"""
    first = [b"GET /1 HTTP/1.1\r\nHost: h\r\n\r\n", b"POST /1 HTTP/1.1\r\nContent-Length: 2\r\n\r\nhi",
             b"POST /1 HTTP/1.1\r\nTransfer-Encoding: chunked\r\n\r\n2\r\nhi\r\n0\r\n\r\n"]
    for pre in (b"", PROXY_SEED[:PROXY_SEED.index(b"\r\n") + 2]):
        for f in first:
            for n in (1, 2):
                yield pre + f * n + PROXY2 + NEXT
                yield pre + f * n + PROXY2 + PROXY2 + NEXT
                yield pre + PROXY2 + f * n + NEXT


def gen_bytes(seed):
    """every byte value substituted at, and inserted before, every offset"""
    for off in range(len(seed) - len(NEXT) + 4):
        for b in range(256):
            bb = bytes([b])
            if seed[off:off + 1] != bb:
                yield seed[:off] + bb + seed[off + 1:]
            yield seed[:off] + bb + seed[off:]


def gen_pairs(seed, alphabet, lo, hi):
    """two odd bytes inserted inside [lo, hi)"""
    for i in range(lo, hi):
        for j in range(i, hi):
            for a in alphabet:
                for b in alphabet:
                    yield seed[:i] + a + seed[i:j] + b + seed[j:]


LONG = (b"line one\n" + b"x" * 1500 + b"\nmid\n" + b"y" * 1400 + b"\r\nend")
SEG_SEEDS = SEEDS + [
    b"POST /t HTTP/1.1\r\nTransfer-Encoding: chunked\r\n\r\n3\r\nabc\r\n0\r\nT: 1\r\nU: 2\r\n\r\n" + NEXT,
    b"POST /t HTTP/1.1\r\nTransfer-Encoding: chunked\r\n\r\n0\r\n\r\n" + NEXT,
    b"GET /n HTTP/1.1\r\n\r\n" + NEXT,
]
API_SEEDS = [
    b"POST /l HTTP/1.1\r\nContent-Length: %d\r\n\r\n" % len(LONG) + LONG + NEXT,
    b"POST /l HTTP/1.1\r\nTransfer-Encoding: chunked\r\n\r\n%x\r\n" % len(LONG) + LONG + b"\r\n0\r\n\r\n" + NEXT,
    b"POST /l HTTP/1.1\r\nTransfer-Encoding: chunked\r\n\r\n9\r\nline one\n\r\n%x\r\n" % (len(LONG) - 9) + LONG[9:] + b"\r\n0\r\nT: 1\r\n\r\n" + NEXT,
]
PROGRAMS = [(("read", 1),), (("read", 1000),), (("readline", None),), (("readline", 5),),
            (("readline", None), ("read", 8192)), (("readline", None), ("read", 100)), (("readline", 4), ("read", 2000)),
            (("read", 3), ("readline", None), ("read", 1024)), (("readline", None), ("readline", None), ("read", 1))]


def gen_segments(kmax):
    """every seed cut at every set of at most kmax offsets (oracle: the whole-stream strict reading)"""
    for s in SEG_SEEDS:
        for cuts in gparse.all_cuts(len(s), kmax):
            if cuts:
                yield (s, cuts, None)


SMUGGLE = b"GET /smuggled HTTP/1.1\r\nHost: s\r\n\r\n"
UNREAD_SEEDS = [m + b" /u HTTP/1.1\r\nHost: h\r\n" + fr + NEXT
                for m in (b"GET", b"HEAD", b"POST", b"DELETE", b"OPTIONS")
                for fr in (b"Content-Length: %d\r\n\r\n" % len(SMUGGLE) + SMUGGLE,
                           b"Transfer-Encoding: chunked\r\n\r\n%x\r\n" % len(SMUGGLE) + SMUGGLE + b"\r\n0\r\n\r\n",
                           b"Content-Length: 9000\r\n\r\n" + (SMUGGLE * 300)[:9000])]


def gen_unread():
    """the application does not read the body (whatever the method): the next request still starts after it"""
    for s in UNREAD_SEEDS:
        yield (s, (), gparse.SKIP)
        b0 = s.index(b"\r\n\r\n") + 4
        for c in (b0, b0 + 1, b0 + 10, len(s) - len(NEXT), len(s) - len(NEXT) - 3):
            yield (s, (c,), gparse.SKIP)


def gen_truncated():
    """every prefix of the body-carrying seeds"""
    for s in (SEEDS[1], SEEDS[2], SEEDS[6], SEEDS[0]):
        s = s[:-len(NEXT)]
        for i in range(s.index(b"\r\n\r\n") + 4, len(s)):
            yield s[:i]


def gen_api():
    """body read programs x (whole | every single cut inside the body region)"""
    for s in API_SEEDS:
        b0 = s.index(b"\r\n\r\n") + 4
        cutsets = [()] + [(c,) for c in list(range(b0 - 2, b0 + 30)) + list(range(len(s) - len(NEXT) - 20, len(s) - len(NEXT) + 3))] \
            + [(b0 + 1024,), (b0 + 1023, b0 + 2048)]
        for prog in PROGRAMS:
            for cuts in cutsets:
                yield (s, cuts, prog)


ODD = [b"\x00", b"\r", b"\n", b" ", b"\t", b"\x0b", b"\x0c", b"\x85", b"\xa0", b",", b";", b":"]

# ---------------------------------------------------------------- driver -------------------


def _gens(tier):
    """name -> (generator factory, configs)"""
    G = {}
    allc = list(CONFIGS)
    thorough = tier == "thorough"
    G["slotA-1line"] = (lambda: gen_slot_a(1), allc)
    G["slotA-2lines"] = (lambda: gen_slot_a(2), allc if thorough else ["default", "refuse", "proxy"])
    if thorough:
        G["slotA-3lines"] = (lambda: gen_slot_a(3), ["default"])
    G["slotB-chunk-grammar"] = (gen_slot_b, allc if thorough else ["default", "small-limits"])
    G["slotC-request-lines"] = (gen_slot_c, allc)
    for i, s in enumerate(SEEDS):
        G["bytes-seed%d" % i] = ((lambda s=s: gen_bytes(s)), ["default"] if not thorough else ["default", "refuse", "anymethod"])
    G["bytes-proxy"] = (lambda: gen_bytes(PROXY_SEED), ["proxy"])
    G["proxy-line-positions"] = (gen_proxy_positions, ["proxy"])
    G["segments-1cut"] = (lambda: gen_segments(1), ["default", "small-limits"])
    if thorough:
        G["segments-2cuts"] = (lambda: gen_segments(2), ["default"])
    G["body-read-programs"] = (gen_api, ["default"])
    G["body-left-unread"] = (gen_unread, ["default", "anymethod"])
    G["truncated-bodies"] = (gen_truncated, ["default"])
    if True:
        te = SEEDS[1]
        a = te.index(b"Transfer-Encoding:")
        G["pairs-te-line"] = (lambda: gen_pairs(te, ODD, a + 17, a + 29), ["default"])
        cl = SEEDS[0]
        a2 = cl.index(b"Content-Length:")
        G["pairs-cl-line"] = (lambda: gen_pairs(cl, ODD, a2 + 14, a2 + 20), ["default"])
        b0 = te.index(b"\r\n\r\n") + 4
        G["pairs-chunk-syntax"] = (lambda: gen_pairs(te, ODD, b0, b0 + 14), ["default"])
    return G


NSHARD = 128


def _task(t):
    tier, gname, cfgname, shard = t
    gen = _gens(tier)[gname][0]()
    evals = 0
    outcomes = {}
    viols = {}
    sample = None
    for idx, data in enumerate(gen):
        if idx % NSHARD != shard:
            continue
        evals += 1
        if isinstance(data, tuple):
            v, oc = check_stream(data[0], cfgname, data[1], data[2])
            data = data[0]
        else:
            v, oc = check_stream(data, cfgname)
        outcomes[oc] = outcomes.get(oc, 0) + 1
        if sample is None and oc not in ("F,F|stop",):
            sample = data
        if v is not None:
            viols.setdefault(v["fingerprint"], [])
            if len(viols[v["fingerprint"]]) < 3:
                viols[v["fingerprint"]].append(v)
    return {"gen": gname, "cfg": cfgname, "evals": evals, "outcomes": outcomes,
            "viols": [x for vs in viols.values() for x in vs], "sample": sample}


def fixture_selftest():
    """The oracle must agree with every safe-mode valid fixture of the repository."""
    import sys
    tdir = "/repo/tests"
    if tdir not in sys.path:
        sys.path.insert(0, tdir)
    import treq
    n = 0
    for f in sorted(glob.glob(os.path.join(tdir, "requests/valid/*.http"))):
        env = treq.load_py(f[:-5] + ".py")
        exp, cfg = env["request"], env["cfg"]
        if cfg.permit_obsolete_folding or cfg.strip_header_spaces or cfg.header_map == "dangerous" \
                or cfg.permit_unconventional_http_version:
            continue
        if not isinstance(exp, list):
            exp = [exp]
        data = treq.request(f, exp).data
        ms = rfc_request.read_stream(data, proxy_protocol=cfg.proxy_protocol)
        for i, e in enumerate(exp):
            assert i < len(ms), "oracle lost message %d of %s" % (i, f)
            m = ms[i]
            assert m.verdict in ("F", "D"), "oracle rejects valid fixture %s: %s" % (f, m.reason)
            eb = e["body"] if isinstance(e["body"], bytes) else e["body"].encode("latin-1")
            if m.body_status == "ok":
                assert m.body == eb, "oracle body differs on %s" % f
            else:
                assert m.body_status == "incomplete" and m.body.startswith(eb[:len(m.body)]), f
            n += 1
    return n


def run(ctx):
    nfix = fixture_selftest()
    G = _gens(ctx.tier)
    tasks = [(ctx.tier, g, c, s) for g, (_f, cfgs) in G.items() for c in cfgs for s in range(NSHARD)]
    random.Random(ctx.seed).shuffle(tasks)
    res = par.pmap(_task, tasks, chunksize=4)
    res.sort(key=lambda r: (r["gen"], r["cfg"]))
    evals = sum(r["evals"] for r in res)
    outcomes = {}
    for r in res:
        for k, v in r["outcomes"].items():
            outcomes[k] = outcomes.get(k, 0) + v
    trivial = outcomes.get("F,F|stop", 0)
    viols = [v for r in res for v in r["viols"]]
    per_gen = {}
    for r in res:
        per_gen[r["gen"] + "/" + r["cfg"]] = per_gen.get(r["gen"] + "/" + r["cfg"], 0) + r["evals"]
    over = sum(v for k, v in outcomes.items() if k.endswith("over-reject") or "over-reject-body" in k)
    unjudged = sum(v for k, v in outcomes.items() if k.endswith("unjudged"))
    samples = [r["sample"] for r in res if r["sample"]][:: max(1, len(res) // 5)][:5]
    cov = {
        "evaluations": evals,
        "distinct_nontrivial": evals - trivial,
        "rule": "streams are generated without repetition by the slot grammar and by byte substitution/insertion at every offset; "
                "non-trivial = anything whose lock-step outcome is not 'two plainly framed requests, clean end'",
        "samples": samples,
        "exhaustive": True,
        "generators": per_gen,
        "outcome_classes": len(outcomes),
        "outcomes_top": dict(sorted(outcomes.items(), key=lambda kv: -kv[1])[:12]),
        "over_rejections": over,
        "unjudged_noread": unjudged,
        "fixtures_agreeing_with_oracle": nfix,
        "configs": sorted(CONFIGS),
    }
    return Result("exploration", cov, viols,
                  ["most streams are delivered in one read; the seed streams are also cut at every offset and judged by the same "
                   "whole-stream oracle (segmentation-independence in general is C06)",
                   "bodies are drained with read() except in the body-read-programs generator (the input API in general is C07)",
                   "documented-unsafe parser modes are excluded",
                   "request lines the strict grammar cannot read are not judged (counted as unjudged_noread)",
                   "gunicorn rejecting more than the RFC requires is not a violation (counted as over_rejections)"])


def replay(case):
    prog = case.get("program")
    v, _ = check_stream(case["data"].encode("latin-1"), case["cfg"], tuple(case.get("cuts") or ()),
                        tuple(tuple(x) for x in prog) if prog else None)
    return v
