"""C02 - responses on the wire are correctly framed; keep-alive only when safe.

Decides by: the full product request head x application program x worker x configuration through
the real worker handle() over a real socketpair (vlib.bench), every connection carrying a second
pipelined request so that anything following a response is observable.  Oracle: vlib.rfc_response
(strict client-side reader) + the persistence rule + body == application output cut to CL."""
import io
import itertools
import os
import random
import socket
import tempfile
import time

from vlib import bench, par, rfc_response
from vlib.runner import Result, violation

SECOND = b"GET /second HTTP/1.1\r\nHost: h\r\n\r\n"
ALPHA = (b"", b"a", b"bc")


class Boom(Exception):
    pass


class ProgApp:
    """WSGI application interpreting one 'program'."""

    def __init__(self, scratch):
        self.scratch = scratch
        self.prog = None
        self.calls = []
        self.files = {}

    def _file(self, content):
        p = self.files.get(content)
        if p is None:
            fd, p = tempfile.mkstemp(dir=self.scratch)
            os.write(fd, content)
            os.close(fd)
            self.files[content] = p
        return open(p, "rb")

    def __call__(self, environ, start_response):
        path = environ["PATH_INFO"]
        self.calls.append(path)
        if path == "/second":
            start_response("200 OK", [("Content-Length", "6")])
            return [b"SECOND"]
        status, cl, chunks, delivery, fail = self.prog
        if fail == "before":
            raise Boom("before start_response")
        headers = [("Content-Type", "text/plain")]
        if cl is not None:
            headers.append(("Content-Length", str(cl)))
        write = start_response(status, headers)
        if fail == "after-start":
            raise Boom("after start_response")
        data = b"".join(chunks)
        if delivery == "list":
            return list(chunks)
        if delivery == "gen":
            def g():
                for i, c in enumerate(chunks):
                    if fail == i:
                        raise Boom("after %d chunks" % i)
                    yield c
                if fail == len(chunks):
                    raise Boom("at end")
            return g()
        if delivery == "write":
            for i, c in enumerate(chunks):
                if fail == i:
                    raise Boom("after %d writes" % i)
                write(c)
            if fail == len(chunks):
                raise Boom("at end")
            return []
        if delivery == "write+iter":
            write(chunks[0])
            return list(chunks[1:])
        if delivery == "write+file":
            # the first piece through the write() callable, the rest as a real file (sendfile path)
            write(chunks[0])
            return environ["wsgi.file_wrapper"](self._file(b"".join(chunks[1:])))
        if delivery == "file":
            return environ["wsgi.file_wrapper"](self._file(data))
        if delivery == "file-mid":
            f = self._file(b"XYZ" + data)
            f.seek(3)
            return environ["wsgi.file_wrapper"](f)
        if delivery == "bytesio":
            return environ["wsgi.file_wrapper"](io.BytesIO(data))
        raise AssertionError(delivery)


def chunk_seqs(maxlen):
    for n in range(0, maxlen + 1):
        yield from itertools.product(ALPHA, repeat=n)


def programs(maxlen, head_method):
    """well-behaved application programs for a request method"""
    for status in ("200 OK", "404 Not Found", "204 No Content", "304 Not Modified"):
        nobody = status[:3] in ("204", "304") or head_method == b"HEAD"
        for chunks in chunk_seqs(maxlen):
            total = len(b"".join(chunks))
            if nobody and total:
                continue
            if nobody and status[:3] != "200":
                cls = [None]
            elif nobody:
                cls = [None, 5]
            else:
                cls = [None, total, 0] + ([total - 1] if total >= 1 else [])
                cls = list(dict.fromkeys(cls))
            for cl in cls:
                for delivery in ("list", "gen", "write", "write+iter", "write+file", "file", "file-mid", "bytesio"):
                    if delivery in ("write+iter", "write+file") and not chunks:
                        continue
                    if status[:3] != "200" and delivery not in ("list", "gen", "file"):
                        continue
                    fails = [None, "before", "after-start"]
                    if delivery in ("gen", "write"):
                        fails += list(range(0, len(chunks) + 1))
                    for fail in fails:
                        yield (status, cl, chunks, delivery, fail)


def heads():
    for ver in (b"1.1", b"1.0"):
        for method in (b"GET", b"HEAD", b"POST"):
            for conn in (None, b"close", b"keep-alive", b"Keep-Alive, x", b"Close"):
                h = method + b" /first HTTP/" + ver + b"\r\nHost: h\r\n"
                if conn is not None:
                    h += b"Connection: " + conn + b"\r\n"
                body = b""
                if method == b"POST":
                    h += b"Content-Length: 3\r\n"
                    body = b"xyz"
                yield (ver, method, conn), h + b"\r\n" + body
        # a request announcing Expect: 100-continue gets an interim response first; nothing else changes
        yield (ver, b"POST", b"expect"), b"POST /first HTTP/" + ver + b"\r\nHost: h\r\nExpect: 100-continue\r\nContent-Length: 3\r\n\r\nxyz"


WORKER_CFGS = [
    ("sync", {}), ("sync", {"sendfile": False}),
    ("gthread", {"keepalive": 2, "threads": 2, "worker_connections": 10}),
    ("gthread", {"keepalive": 0, "threads": 2}),
    ("gthread", {"keepalive": 2, "threads": 2, "worker_connections": 10, "sendfile": False}),
    ("async", {"keepalive": 2}), ("async", {"keepalive": 0}), ("async", {"keepalive": 2, "sendfile": False}),
]


def expected_body(prog, method):
    status, cl, chunks, delivery, fail = prog
    if isinstance(fail, int):
        produced = b"".join(chunks[:fail])
    else:
        produced = b"".join(chunks)
    if method == b"HEAD" or status[:3] in ("204", "304"):
        return b"", produced
    return (produced if cl is None else produced[:cl]), produced


def judge(key, prog, kind, kw, o, calls):
    """Returns (fingerprint, text) or None."""
    ver, method, conn = key
    status, cl, chunks, delivery, fail = prog
    if o.exc:
        return "exception-escaped-handle", "handle() raised %s" % o.exc
    expect = ()
    if conn == b"expect":
        conn = None
        expect = (0,)
        if not o.wire.startswith(b"HTTP/1.1 100 Continue\r\n\r\n") and fail != "before" and o.wire:
            return "no-interim-100-continue", "request carried Expect: 100-continue, wire starts with %r" % o.wire[:40]
    resps, problems = rfc_response.read_all(o.wire, [method, b"GET"], o.server_closed, expect_continue=expect)
    want_close = (conn is not None and conn.lower() == b"close") or \
                 (ver == b"1.0" and not (conn is not None and conn.lower() == b"keep-alive"))
    failing = fail is not None
    exp_body, produced = expected_body(prog, method)
    if not o.server_closed:
        return "connection-left-open", "client half-closed after two requests but the server did not close"
    if failing:
        # acceptable in every failing case: nothing at all, or exactly one complete 5xx error reply
        # (the error page always carries a body, also for HEAD: read it as a GET reply), then close
        er, eproblems = rfc_response.read_all(o.wire, [b"GET", b"GET"], o.server_closed, expect_continue=expect)
        if not er:
            return None
        e0 = er[0]
        if e0.complete and not e0.problems and e0.code >= 500 and not e0.get(b"server"):
            if b"close" not in e0.tokens(b"connection") or len(er) > 1 or eproblems:
                return "error-reply-not-final", "error reply without Connection: close or followed by more bytes: %r" % o.wire[-60:]
            return None
        if fail in ("before", "after-start"):
            if e0.problems or not e0.complete:
                return "malformed-error-reply", "app failed %s; wire %r: %s" % (fail, o.wire[:80], e0.problems)
            return "success-reply-for-failed-app", "app raised %s start_response output but status %d was sent" % (fail, e0.code)
    if not resps:
        return "no-response", "no response bytes for a well-behaved application (wire %r)" % o.wire[:60]
    r = resps[0]
    bad = [p for p in r.problems if not (failing and p.startswith(("incomplete", "short-body")))]
    if bad:
        return "malformed-response:" + bad[0], "wire %r: %s" % (o.wire[:120], r.problems)
    if r.code != int(status[:3]):
        return "status-differs", "sent %d for %s" % (r.code, status)
    for name in (b"server", b"date", b"connection"):
        if len(r.get(name)) != 1:
            return "server-field-count:" + name.decode(), "%d %s fields" % (len(r.get(name)), name.decode())
    if not rfc_response.DATE.fullmatch(r.get(b"date")[0]):
        return "bad-date", "Date: %r" % r.get(b"date")[0]
    announced = r.tokens(b"connection")
    if isinstance(fail, int):
        # failure after the head went out: the client must not see a complete, different response
        if r.framing in ("chunked", "length") and r.complete:
            full_len = cl is not None and len(produced) >= cl
            if not full_len and not (r.framing == "length" and cl == 0):
                return "failed-app-looks-complete", "app raised after %d chunk(s) but the %s-framed response is complete (body %r)" % (
                    fail, r.framing, r.body)
        if not exp_body.startswith(r.body) and not r.body.startswith(exp_body):
            return "body-differs", "body %r vs produced %r" % (r.body, exp_body)
        if len(resps) > 1:
            return "response-after-failed-app", "a second response followed a response the app aborted"
        return None
    if not r.complete:
        return "incomplete-response:" + (r.problems[0] if r.problems else "?"), "wire %r" % o.wire[:120]
    if r.body != exp_body:
        return "body-differs", "decoded body %r, application output (cut to CL) %r; framing %s" % (r.body, exp_body, r.framing)
    if cl is not None and method != b"HEAD" and status[:3] not in ("204", "304") and r.framing != "length":
        return "declared-length-not-used", "framing %s although Content-Length declared" % r.framing
    if r.framing == "chunked" and ver == b"1.0":
        return "chunked-to-http10", "chunked response to an HTTP/1.0 request"
    persisted = len(resps) > 1
    if problems:
        return "connection-level:" + problems[0], "wire %r" % o.wire[:160]
    if persisted:
        r2 = resps[1]
        if r2.problems or not r2.complete or r2.body != b"SECOND":
            return "second-response-corrupt", "second response %r problems %s" % (r2.body, r2.problems)
        if want_close:
            return "persisted-although-close-requested", "request %s/%s Connection=%r but a second request was served" % (ver, method, conn)
        if r.framing == "close":
            return "persisted-without-delimiting", "close-delimited response but connection persisted"
        if b"keep-alive" not in announced:
            return "persisted-without-announcing", "second request served but first response said Connection: %r" % announced
        if kind == "sync":
            return "sync-worker-persisted", "sync worker served two requests on one connection"
    else:
        if b"keep-alive" in announced and b"close" not in announced:
            return "announced-keepalive-but-closed", "response said keep-alive, the pipelined request was not served"
    if b"close" in announced and persisted:
        return "persisted-after-announcing-close", "Connection: close announced, yet a second response"
    if calls != (["/first", "/second"] if persisted else ["/first"]):
        return "app-call-sequence", "application calls %r" % calls
    return None


def _task(t):
    wi, hi_shard, maxlen = t
    kind, kw = WORKER_CFGS[wi]
    scratch = tempfile.mkdtemp(prefix="verif-c02-", dir="/dev/shm" if os.path.isdir("/dev/shm") else None)
    app = ProgApp(scratch)
    b = bench.Bench(kind, kw, app)
    evals = 0
    outcomes = {}
    viols = {}
    try:
        for idx, (key, head) in enumerate(heads()):
            if idx % HEAD_SHARDS != hi_shard:
                continue
            for prog in programs(maxlen, key[1]):
                if not b.worker.alive:
                    b.worker.alive = True
                app.prog = prog
                app.calls = []
                o = b.connection(head + SECOND)
                evals += 1
                v = judge(key, prog, kind, kw, o, list(app.calls))
                oc = "%s/%d" % ("fail" if prog[4] is not None else "ok", o.wire.count(b"HTTP/1."))
                outcomes[oc] = outcomes.get(oc, 0) + 1
                if v is not None:
                    fp = v[0] + ":" + ("file" if prog[3].startswith("file") else "iter")
                    if fp not in viols:
                        viols[fp] = violation(fp, "worker=%s %r request=%r program=%r: %s" % (kind, kw, key, prog, v[1]),
                                              {"worker": wi, "head": [k.decode() if k else None for k in key],
                                               "prog": [prog[0], prog[1], [c.decode() for c in prog[2]], prog[3], prog[4]]})
    finally:
        b.close()
        import shutil
        shutil.rmtree(scratch, ignore_errors=True)
    return {"evals": evals, "viols": list(viols.values()), "outcomes": outcomes, "key": (wi, hi_shard)}


# ---------------------------------------------------------------- real servers -------------
# The in-process bench cannot see what depends on the socket's mode, on the keep-alive timer or on the real
# transport (sendfile, socket buffers): a small grid of connection scripts on real servers, read back by the
# same strict response reader.

REAL_SCRIPTS = {
    # name: (keepalive, [(path, version, connection header or None, pause before reading)], )
    "ka-then-file": (2, [("/ok", "1.1", None, 0), ("/file/262144", "1.1", None, 0)]),
    "ka-ka-then-file": (2, [("/ok", "1.1", None, 0), ("/ok", "1.1", None, 0), ("/file/70000", "1.1", None, 0)]),
    "ka-then-big-slow-reader": (2, [("/ok", "1.1", None, 0), ("/big/6291456", "1.1", None, 0.4)]),
    "file-then-big": (2, [("/file/262144", "1.1", None, 0.2), ("/big/3000000", "1.1", None, 0.2), ("/ok", "1.1", None, 0)]),
    "slow-chunked-beyond-keepalive": (1, [("/slowstream/1.6", "1.1", None, 0), ("/ok", "1.1", None, 0)]),
    "slow-length-beyond-keepalive": (1, [("/slowcl/1.6", "1.1", None, 0), ("/ok", "1.1", None, 0)]),
    "http10-keepalive-undelimited": (2, [("/slowstream/0", "1.0", "keep-alive", 0), ("/ok", "1.1", None, 0)]),
    "http10-keepalive-then-file": (2, [("/ok", "1.0", "keep-alive", 0), ("/file/70000", "1.0", "keep-alive", 0)]),
    # a file far larger than any socket buffer, read by a client that starts late: the transfer goes through many partial sends
    "huge-file-slow-reader": (2, [("/file/12582912", "1.1", None, 0.5), ("/ok", "1.1", None, 0)]),
    # the same over TCP with a small receive buffer and odd read sizes: the server's sends are cut short all the time
    "huge-file-trickling-reader": (2, [("/file/4194304", "1.1", None, 0.5), ("/ok", "1.1", None, 0)], {"bind": "tcp", "rcvbuf": 4096, "odd_reads": True}),
    "big-body-trickling-reader": (2, [("/big/3000000", "1.1", None, 0.3), ("/ok", "1.1", None, 0)], {"bind": "tcp", "rcvbuf": 4096, "odd_reads": True}),
    "pipe-file": (2, [("/pipefile/50000", "1.1", None, 0), ("/ok", "1.1", None, 0)]),
    # the client stays connected and silent after a complete exchange: when the keep-alive time is over the server closes -
    # without writing anything
    "idle-past-keepalive": (1, [("/ok", "1.1", None, 0), (None, None, None, 2.2)]),
}
REAL_WORKERS = ("sync", "gthread", "gevent", "eventlet")


def _expected_real_body(path):
    if path.startswith("/file/"):
        return b"F" * int(path[6:])
    if path.startswith("/pipefile/"):
        return b"P" * int(path[10:])
    if path.startswith("/big/"):
        return b"B" * int(path[5:])
    if path.startswith("/slow"):
        return b"first-part;second-part;"
    return b"ok"


def _read_until(c, wire, nresp, deadline, odd=False):
    """Read until nresp complete responses are on the wire, EOF, or the deadline."""
    eof = False
    k = 0
    while True:
        k += 1
        if odd and len(wire) > 100000 and k % 64:
            # trickle: small odd-sized reads without re-parsing every time
            try:
                c.settimeout(2.0)
                d = c.recv(3001 if k % 2 else 7013)
            except socket.timeout:
                d = None
            except OSError:
                return wire, True
            if d is not None:
                if not d:
                    eof = True
                else:
                    wire += d
                    if k % 8 == 0:
                        time.sleep(0.001)
                    if time.time() < deadline:
                        continue
        resps, _p = rfc_response.read_all(wire, [b"GET"] * 8, eof)
        if eof or sum(1 for r in resps if r.complete) >= nresp:
            return wire, eof
        left = deadline - time.time()
        if left <= 0:
            return wire, eof
        c.settimeout(min(left, 2.0))
        try:
            d = c.recv(1 << 20)
        except socket.timeout:
            continue
        except OSError:
            return wire, True
        if not d:
            eof = True
        wire += d


def real_cell(cell):
    from vlib import realproc
    wc, script = cell
    keepalive, reqs = REAL_SCRIPTS[script][:2]
    opts = REAL_SCRIPTS[script][2] if len(REAL_SCRIPTS[script]) > 2 else {}
    odd = bool(opts.get("odd_reads"))

    def connect():
        if opts.get("rcvbuf"):
            c_ = socket.socket()
            c_.setsockopt(socket.SOL_SOCKET, socket.SO_RCVBUF, opts["rcvbuf"])
            c_.settimeout(10.0)
            c_.connect(("127.0.0.1", srv.port))
            return c_
        return srv.connect(timeout=10.0)
    srv = realproc.Server(worker_class=wc, workers=1, bind=opts.get("bind", "unix"), keepalive=keepalive, threads=2 if wc == "gthread" else None,
                          timeout=30, graceful_timeout=2)
    try:
        if not srv.start():
            return ("infrastructure", "server did not start: " + srv.log_text()[-300:])
        c = None
        wire = b""
        nresp = 0
        may_continue = False
        for i, (path, ver, conn, pause) in enumerate(reqs):
            if path is None:
                # nothing is sent for `pause` seconds: whatever arrives now was not asked for
                if c is None or not may_continue:
                    continue
                wire, eof = _read_until(c, wire, nresp + 1, time.time() + pause)
                resps, probs = rfc_response.read_all(wire, [b"GET"] * 8, eof)
                if len(resps) > nresp or probs or len(wire) > (resps[-1].end if resps else 0):
                    return ("unsolicited-bytes", "after %d complete exchange(s) and %.1f s of silence (keepalive %d s) the server wrote %r" % (
                        nresp, pause, keepalive, wire[(resps[nresp - 1].end if nresp else 0):][:80]))
                if not eof:
                    return ("idle-connection-not-closed", "keepalive %d s, the connection is still open after %.1f s of silence" % (keepalive, pause))
                may_continue = False
                continue
            if c is None or not may_continue:
                if c is not None:
                    # the server said it would close: it must, and nothing may follow the last response
                    wire, eof = _read_until(c, wire, nresp + 1, time.time() + 3.0)
                    resps, probs = rfc_response.read_all(wire, [b"GET"] * 8, eof)
                    if len(resps) > nresp or probs:
                        return ("bytes-after-final-response", "request %d %s: after a response that ended the connection: %r %s" % (
                            i - 1, reqs[i - 1][0], wire[-80:], probs))
                    if not eof:
                        return ("not-closed-after-announcing-close", "request %d %s: response announced the end of the connection "
                                "but it is still open after 3 s" % (i - 1, reqs[i - 1][0]))
                    c.close()
                c = connect()
                wire = b""
                nresp = 0
            head = "GET %s HTTP/%s\r\nHost: h\r\n" % (path, ver)
            if conn:
                head += "Connection: %s\r\n" % conn
            try:
                c.sendall((head + "\r\n").encode())
            except OSError as e:
                return ("request-not-accepted", "request %d %s on a connection announced as persistent: %s" % (i, path, e))
            if pause:
                time.sleep(pause)
            wire, eof = _read_until(c, wire, nresp + 1, time.time() + (25.0 if odd else 12.0), odd=odd)
            resps, probs = rfc_response.read_all(wire, [b"GET"] * 8, eof)
            if len(resps) <= nresp:
                return ("no-response", "request %d %s: no response (eof=%s, connection had %d earlier responses)" % (i, path, eof, nresp))
            r = resps[nresp]
            want = _expected_real_body(path)
            if r.problems or not r.complete:
                return ("response-incomplete", "request %d %s: %s framing=%s got %d of %d body bytes (eof=%s) tail=%r" % (
                    i, path, r.problems or "incomplete", r.framing, len(r.body), len(want), eof, wire[-60:]))
            if r.code != 200 or r.body != want:
                return ("response-differs", "request %d %s: status %s, body %d bytes (%r...) expected %d" % (
                    i, path, r.code, len(r.body), r.body[:40], len(want)))
            if len(resps) > nresp + 1 or probs:
                return ("unsolicited-bytes", "request %d %s: %s %r" % (i, path, probs, wire[r.end:r.end + 80]))
            nresp += 1
            toks = r.tokens(b"connection")
            may_continue = (r.framing != "close" and b"close" not in toks and (r.minor == 1 and ver == "1.1" or b"keep-alive" in toks)
                            and not eof)
            if r.framing == "close" and not eof:
                return ("close-delimited-but-open", "request %d %s" % (i, path))
        return None
    finally:
        try:
            if c is not None:
                c.close()
        except Exception:
            pass
        srv.cleanup()


def real_part(thorough, seed):
    cells = [(wc, sc) for wc in REAL_WORKERS for sc in REAL_SCRIPTS]
    order = list(cells)
    random.Random(seed).shuffle(order)
    results = par.pmap(real_cell, order, jobs=12)
    viols, unconfirmed, infra = [], [], 0
    for cell, v in zip(order, results):
        if v is None:
            continue
        v2 = real_cell(cell)
        if v2 is None or v2[0] != v[0]:
            unconfirmed.append({"cell": list(cell), "first": v[0]})
            continue
        if v[0] == "infrastructure":
            infra += 1
            continue
        viols.append(violation("real:%s:%s" % (v[0], cell[0]), "worker=%s script=%s: %s" % (cell[0], cell[1], v[1]),
                               {"part": "real", "cell": list(cell)}))
    return {"cells": len(cells), "viols": viols, "unconfirmed": unconfirmed, "infrastructure_failures": infra}


HEAD_SHARDS = 6


def run(ctx):
    maxlen = 3 if ctx.thorough else 2
    tasks = [(wi, s, maxlen) for wi in range(len(WORKER_CFGS)) for s in range(HEAD_SHARDS)]
    random.Random(ctx.seed).shuffle(tasks)
    res = par.pmap(_task, tasks)
    res.sort(key=lambda r: r["key"])
    outcomes = {}
    for r in res:
        for k, v in r["outcomes"].items():
            outcomes[k] = outcomes.get(k, 0) + v
    viols = [v for r in res for v in r["viols"]]
    real = real_part(ctx.thorough, ctx.seed)
    viols += real["viols"]
    evals = sum(r["evals"] for r in res) + real["cells"]
    nprog = sum(1 for _ in programs(maxlen, b"GET"))
    cov = {
        "evaluations": evals,
        "distinct_nontrivial": evals - outcomes.get("ok/1", 0) // 2,
        "rule": "one case per (worker+config, request head, application program); programs enumerate status x declared length x "
                "chunk sequence (<=%d chunks over {'', 'a', 'bc'}) x delivery x failure point; non-trivial = everything except "
                "half of the plain single-response successes (counted conservatively)" % maxlen,
        "samples": [{"head": "POST /first HTTP/1.1 + Connection: keep-alive", "program": ["200 OK", 2, ["a", "bc"], "write+iter", None]},
                    {"head": "GET /first HTTP/1.0", "program": ["200 OK", None, [""], "file", None]}],
        "exhaustive": True,
        "worker_configs": ["%s %r" % wc for wc in WORKER_CFGS],
        "request_heads": sum(1 for _ in heads()),
        "programs_per_GET_head": nprog,
        "outcome_classes": outcomes,
        "real_cells": real["cells"], "real_scripts": sorted(REAL_SCRIPTS), "real_unconfirmed": real["unconfirmed"],
        "real_infrastructure_failures": real["infrastructure_failures"],
    }
    return Result("exploration", cov, viols,
                  ["well-behaved application: no body bytes for HEAD/204/304, declared Content-Length <= produced bytes, latin-1 header strings",
                   "the client sends both pipelined requests and half-closes before the worker runs (deterministic, no threads)",
                   "gevent/eventlet are represented in-process by the shared AsyncWorker.handle code with a null timeout context; "
                   "the real-server scripts (sequences of requests on one connection, large/file/slow responses) run on real "
                   "sync/gthread/gevent/eventlet servers; a real-process anomaly counts only if it reproduces on a serial re-run"])


def replay(case):
    if case.get("part") == "real":
        v = real_cell(tuple(case["cell"]))
        if v and v[0] != "infrastructure":
            return violation("real:%s:%s" % (v[0], case["cell"][0]), v[1], case)
        return None
    wi = case["worker"]
    kind, kw = WORKER_CFGS[wi]
    key = tuple(k.encode() if k is not None else None for k in case["head"])
    p = case["prog"]
    prog = (p[0], p[1], tuple(c.encode() for c in p[2]), p[3], p[4])
    scratch = tempfile.mkdtemp(prefix="verif-c02-", dir="/dev/shm")
    app = ProgApp(scratch)
    b = bench.Bench(kind, kw, app)
    try:
        head = dict(heads())[key]
        app.prog = prog
        o = b.connection(head + SECOND)
        v = judge(key, prog, kind, kw, o, list(app.calls))
        if v:
            return violation(v[0] + ":" + ("file" if prog[3].startswith("file") else "iter"), v[1] + " wire=%r" % o.wire[:300], case)
    finally:
        b.close()
        import shutil
        shutil.rmtree(scratch, ignore_errors=True)
    return None
