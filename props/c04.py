"""C04 - graceful shutdown completes in-flight requests and leaves nothing behind.

(a) master side, simulated kernel: from every quiescent state reachable with <= d pool events,
    TERM / INT / QUIT (also a second signal and worker exits mid-flight at every delivery point of
    the shutdown) with workers that exit at once / late / never; oracle on the real Arbiter's
    behaviour: exit status 0 no later than graceful_timeout, right signals, final KILL, nothing
    alive, listeners closed, unix path unlinked iff owned, pid file removed (real Pidfile on simfs).
(c) real processes: signal x phase of a connection's life x worker class x application behaviour x
    bind, each connection HELD in its phase by a gate while the signal is sent."""
import os
import random
import signal
import time
from concurrent.futures import ThreadPoolExecutor

from vlib import par, realproc as rp, simkernel as sk
from vlib.runner import Result, violation
from props import c03

GRACEFUL = 2
PIDFILE = "/run/app.pid"

# ---------------------------------------------------------------- (a) simulated master ----------


def sim_cfgs(params):
    bind = ["unix:/run/app.sock"] if params["bind"] == "unix" else ["127.0.0.1:8000"]
    c = sk.make_cfg(workers=params["workers"], timeout=params["timeout"], graceful_timeout=GRACEFUL, pidfile=PIDFILE, bind=bind)
    rg = params.get("reload_graceful")
    if rg is None:
        return [c, c, c]
    # every reload (HUP) installs a configuration with another graceful_timeout: the one in force when the stop
    # signal is handled is the one that counts
    c2 = sk.make_cfg(workers=params["workers"], timeout=params["timeout"], graceful_timeout=rg, pidfile=PIDFILE, bind=bind)
    return [c, c2, c2]


def sim_execute(params, script, inject=None):
    k = sk.Kernel(script=script, inject=inject, term=params["term"], settle=2, late_delay=1.5, master_pid=params.get("master_pid", sk.MASTER_PID))
    k.fs.dirs.add("/run")
    o = sk.run_arbiter(sim_cfgs(params), k)
    return k, o


def sim_judge(params, k, o, stop_sig, label=None):
    at = ("@" + label) if label else ""
    bad = []
    grace = GRACEFUL
    if params.get("reload_graceful") is not None and o.arbiter is not None:
        grace = o.arbiter.cfg.graceful_timeout       # the configuration the master itself has in force
        at = ":after-reload-changing-graceful-timeout" + at
    if o.end == "exception":
        return [("escaped-run:%s%s" % (o.exc.split(":")[0], at), "exception left Arbiter.run(): %s" % o.exc)]
    if o.end != "exit":
        return [("master-did-not-exit" + at, "after %s the master is still running at the horizon (%s)" % (stop_sig, o.end))]
    if any(t[0] == "log" and "Unhandled exception in main loop" in t[2] for t in k.trace):
        return [("main-loop:unhandled-exception" + at, "the master hit 'Unhandled exception in main loop' (exit %r)" % (o.code,))]
    if o.code != 0:
        bad.append(("exit-status" + at, "master exited with status %r after %s" % (o.code, stop_sig)))
    # when did the shutdown begin: first listener close after the signal
    t_sig = None
    for t in k.trace:
        if t[0] == "event" and t[1] == "sig" and t[2] in ("TERM", "INT", "QUIT"):
            t_sig = t
            break
    stop_time = getattr(k, "stop_began", None)
    # every child is dead at exit
    alive = [p.pid for p in k.children() if p.alive and p.kind == "worker"]
    if alive:
        bad.append(("workers-survive" + at, "master exited, workers %r still alive" % alive))
    want_sig = signal.SIGTERM if stop_sig == "TERM" else signal.SIGQUIT
    # the shutdown begins when the master handles the stop signal: the first kill() after that log record
    first_stop = None
    handling = False
    for t in k.trace:
        if t[0] == "log" and t[2].startswith("Handling signal: ") and t[2].split(": ")[1] in ("term", "int", "quit"):
            handling = True
        elif handling and t[0] == "kill" and t[2] == want_sig:
            first_stop = t[3]
            break
    if first_stop is not None:
        if k.now - first_stop > grace + 0.11:
            bad.append(("exit-too-late" + at, "master exited %.2f s after telling workers to stop, graceful_timeout %d" % (k.now - first_stop, grace)))
    if first_stop is not None and stop_sig == "TERM":
        for (now, pid, sig, snap, was_alive) in k.kills:
            if sig == signal.SIGKILL and was_alive and now - first_stop < grace - 0.11:
                bad.append(("killed-before-graceful-timeout" + at, "SIGKILL sent to live worker %d only %.2f s after the graceful stop began (graceful_timeout %d)" % (
                    pid, now - first_stop, grace)))
                break
    if not all(l.closed for l in k.listeners):
        bad.append(("listener-left-open" + at, "a listening socket was not closed"))
    unlinked = [t for t in k.trace if t[0] == "unlink-socket"]
    if params["bind"] == "unix" and not unlinked:
        bad.append(("unix-socket-not-unlinked" + at, "the master owns the unix socket path but did not unlink it"))
    if PIDFILE in k.fs.snapshot():
        bad.append(("pidfile-left" + at, "pid file still present after exit: %r" % k.fs.snapshot()[PIDFILE]))
    return bad


STOP_EVENTS = [("sig", "TERM"), ("sig", "INT"), ("sig", "QUIT"), (("sig", "TERM"), ("sig", "TERM")), (("sig", "TERM"), ("exit", 0, 9)),
               (("sig", "QUIT"), ("sig", "TERM"))]
MID = [("exit", 0, 9), ("exit", 0, 0), ("sig", "TERM"), ("sig", "INT"), ("sig", "HUP"), ("sig", "TTIN")]


def _sim_task(t):
    params, pre, stop, do_mid = t
    script = list(pre) + [stop]
    name = stop[1] if not isinstance(stop[0], tuple) else stop[0][1]
    k, o = sim_execute(params, script)
    out = {"runs": 1, "bad": [], "states": 1}
    for fp, text in sim_judge(params, k, o, name):
        out["bad"].append((fp, text, script, None))
    if do_mid:
        qp = k.quiescent_points
        start = qp[len(pre)] if len(qp) > len(pre) else 0
        for idx in range(start, min(k.npoints, start + 400)):      # bounded also when a broken master produces thousands of points
            for ev in MID:
                k2, o2 = sim_execute(params, script, inject={idx: ev})
                out["runs"] += 1
                label = k2.point_labels[idx] if idx < len(k2.point_labels) else "?"
                for fp, text in sim_judge(params, k2, o2, name, label):
                    out["bad"].append((fp, text, script, (idx, ev, label)))
    return out


def sim_part(thorough):
    pres = [[]]
    pool_events = [("exit", 0, 9), ("sig", "TTIN"), ("sig", "TTOU"), ("sig", "HUP"), ("tick",)]
    pres += [[e] for e in pool_events]
    if thorough:
        pres += [[a, b] for a in pool_events for b in pool_events]
    tasks = []
    for workers in ((1, 2, 3) if thorough else (2,)):
        for timeout in (1, 30):
            for term in ("now", "late", "never"):
                for bind in ("tcp", "unix"):
                    params = {"workers": workers, "timeout": timeout, "term": term, "bind": bind}
                    for pre in pres:
                        for stop in STOP_EVENTS:
                            do_mid = (len(pre) == 0 or thorough) and bind == "tcp"
                            tasks.append((params, pre, stop, do_mid))
    # a master whose pid has seven digits (kernel.pid_max = 4194304 on 64-bit hosts), and one with a single digit
    for mp in (1234567, 4194303, 7):
        for bind in ("tcp", "unix"):
            params = {"workers": 2, "timeout": 30, "term": "now", "bind": bind, "master_pid": mp}
            for pre in ([], [("sig", "HUP")]):
                for stop in STOP_EVENTS[:3]:
                    tasks.append((params, pre, stop, False))
    # reloads that change graceful_timeout before the stop
    hup_pres = [[("sig", "HUP")], [("sig", "HUP"), ("tick",)], [("sig", "HUP"), ("sig", "HUP")], [("sig", "TTIN"), ("sig", "HUP")]]
    if thorough:
        hup_pres += [[("sig", "HUP"), e] for e in pool_events if e != ("tick",)] + [[("exit", 0, 9), ("sig", "HUP")]]
    for rg in (5, 1):
        for term in ("late", "never", "now"):
            for bind in ("tcp", "unix"):
                params = {"workers": 2, "timeout": 30, "term": term, "bind": bind, "reload_graceful": rg}
                for pre in hup_pres:
                    for stop in STOP_EVENTS:
                        tasks.append((params, pre, stop, thorough and bind == "tcp" and len(pre) == 1))
    res = par.pmap(_sim_task, tasks, chunksize=2)
    viols = {}
    runs = 0
    # a master that was started by an upgrade (USR2) and later promoted must leave nothing behind either when it is stopped
    from props import c14
    c14.patch_reexec_marker()
    for bind in ("tcp", "unix"):
        for script in ([("parent-exit",), ("sig", "TERM")], [("parent-killed",), ("sig", "TERM")], [("parent-exit",), ("tick",), ("sig", "QUIT")], [("sig", "TERM")],
                       # the stop signal arrives in the same instant as the news of the old master's death (no idle tick in between)
                       [(("parent-exit",), ("sig", "TERM"))], [(("parent-killed",), ("sig", "QUIT"))], [(("parent-exit",), ("sig", "INT"))]):
            k, o = c14.new_execute({"bind": bind, "daemon": False}, list(script))
            runs += 1
            left = {p: d for p, d in k.fs.snapshot().items() if d == b"%d\n" % c14.NEW_PID}
            if o.end != "exit" or o.code != 0:
                viols.setdefault("upgraded-master:exit-status", violation("sim:upgraded-master:exit-status", "upgraded master, history %r: %s %r" % (script, o.end, o.code), {"part": "sim-upgraded"}))
            elif bind == "unix" and script != [("sig", "TERM")] and not any(t[0] == "unlink-socket" for t in k.trace):
                viols.setdefault("upgraded-master:unix-socket-left", violation("sim:upgraded-master:unix-socket-left", "upgraded master, history %r: it was the last master "
                                 "(its parent had gone) when it stopped, yet the unix socket path was not unlinked" % (script,), {"part": "sim-upgraded"}))
            elif left:
                viols.setdefault("upgraded-master:pidfile-left", violation("sim:upgraded-master:pidfile-left", "upgraded master (pid %d), history %r: after its exit the pid file(s) %r still name it" % (
                    c14.NEW_PID, script, sorted(left)), {"part": "sim-upgraded"}))
    for r in res:
        runs += r["runs"]
        for fp, text, script, inj in r["bad"]:
            if fp not in viols:
                viols[fp] = violation("sim:" + fp, "history=%r%s: %s" % (c03.ser(script), (" mid-flight %r at #%d (%s)" % (inj[1], inj[0], inj[2])) if inj else "", text),
                                      {"part": "sim", "script": c03.ser(script), "inject": [inj[0], list(inj[1])] if inj else None})
    return {"transitions": len(tasks), "runs": runs, "viols": list(viols.values())}


# ---------------------------------------------------------------- (c) real processes ------------

PHASES = ("accepted-idle", "head-partial", "app-running", "response-partial", "keepalive-idle")


def _hook_cell(cell):
    """TERM while the OLDER of two sync workers is inside a request and the younger, idle one exits at once - through a
    worker_exit hook that raises.  A failing hook is that worker's business: the request in the other worker is answered."""
    wc, sig_name, phase, app, bind = cell
    s = rp.Server(worker_class=wc, workers=2, bind=bind, graceful_timeout=GRACEFUL + 2, timeout=30, keepalive=5,
                  conf_lines=["def worker_exit(server, worker):\n    raise RuntimeError('worker_exit hook failed')"])
    try:
        if not s.start():
            return ("infrastructure", "server did not start: %s" % s.log_text()[-300:])
        time.sleep(0.3)
        ca, cb = s.connect(), s.connect()
        ca.sendall(b"GET /gate/a HTTP/1.1\r\nHost: h\r\n\r\n")
        pa = s.gate.wait_entered("app:a", 8)
        cb.sendall(b"GET /gate/b HTTP/1.1\r\nHost: h\r\n\r\n")
        pb = s.gate.wait_entered("app:b", 8)
        if pa is None or pb is None or pa == pb:
            return ("infrastructure", "could not occupy both workers (%r, %r)" % (pa, pb))
        older, younger = ("a", "b") if pa < pb else ("b", "a")      # pids are handed out in increasing order within such a short time
        conn = {"a": ca, "b": cb}
        s.gate.release("app:" + younger)
        head, body, complete, closed = rp.read_response(conn[younger], 5)
        if not complete:
            return ("infrastructure", "warm-up request not answered")
        t_sig = time.time()
        s.signal(getattr(signal, "SIG" + sig_name))
        time.sleep(1.0)            # the idle worker leaves (its hook raises); the busy one is still inside the application
        s.gate.release("app:" + older)
        head, body, complete, closed = rp.read_response(conn[older], GRACEFUL + 4)
        v = None
        if not complete or body != b"gated-ok":
            v = ("in-flight-request-not-answered:sibling-exit-hook-failed", "two workers, TERM: the idle one exited (worker_exit hook raises) while the other was inside a "
                 "request that finished 1 s later, well inside graceful_timeout: the client got head=%r body=%r" % (head[:60], body))
        status = s.wait_exit(GRACEFUL + 8)
        if status is None:
            v = v or ("master-did-not-exit", "master still running %.1f s after TERM" % (time.time() - t_sig))
        elif status != 0:
            v = v or ("exit-status", "master exit status %r after TERM (a worker_exit hook raised in a worker)" % status)
        if s.pidfile and os.path.exists(s.pidfile):
            v = v or ("pidfile-left", "pid file still exists")
        for c in (ca, cb):
            c.close()
        return v
    finally:
        s.cleanup()


def _helper_cell(cell):
    """The application starts a helper process when it is imported (in the worker).  After the stop nothing may listen on the
    address any more - the helper must not have been handed the listening socket."""
    import glob
    wc, sig_name, phase, app, bind = cell
    s = rp.Server(worker_class=wc, workers=2, bind=bind, graceful_timeout=GRACEFUL, timeout=30, keepalive=5,
                  threads=2 if wc == "gthread" else None, env={"VERIF_SPAWN_HELPER": "1"})
    helpers = []
    try:
        if not s.start():
            return ("infrastructure", "server did not start: %s" % s.log_text()[-300:])
        time.sleep(0.5)
        for f in glob.glob(os.path.join(s.dir, "helper-*.pid")):
            try:
                helpers.append(int(open(f).read()))
            except (OSError, ValueError):
                pass
        if not helpers:
            return ("infrastructure", "the application did not start its helper")
        c = s.connect()
        c.sendall(b"GET /plain HTTP/1.1\r\nHost: h\r\nConnection: close\r\n\r\n")
        rp.read_response(c, 5)
        c.close()
        s.signal(getattr(signal, "SIG" + sig_name))
        status = s.wait_exit(GRACEFUL + 6)
        v = None
        if status is None:
            v = ("master-did-not-exit", "master still running after %s" % sig_name)
        elif status != 0:
            v = ("exit-status", "master exit status %r" % status)
        time.sleep(0.3)
        holders = []
        for h in helpers:
            try:
                for fd in os.listdir("/proc/%d/fd" % h):
                    try:
                        if os.readlink("/proc/%d/fd/%s" % (h, fd)).startswith("socket:"):
                            holders.append(h)
                            break
                    except OSError:
                        pass
            except OSError:
                pass
        if s.can_connect():
            v = v or ("still-listening", "the master and its workers are gone, yet connect() to the address still succeeds: the listening socket lives on in "
                      "a process the application started at import time (pids %r)" % (holders or helpers))
        elif holders:
            v = v or ("listener-leaked-to-child-process", "helper process(es) %r started by the application at import time hold a socket inherited from the worker" % holders)
        return v
    finally:
        for h in helpers:
            try:
                os.kill(h, signal.SIGKILL)
            except OSError:
                pass
        s.cleanup()


def real_cell(cell):
    try:
        if cell[3] == "failing-exit-hook":
            return _hook_cell(cell)
        if cell[3] == "helper-at-import":
            return _helper_cell(cell)
        return _real_cell(cell)
    except OSError as e:
        return ("infrastructure", "driver-side socket error: %r" % (e,))


def _real_cell(cell):
    """One real server run.  Returns None or (fingerprint, text)."""
    wc, sig_name, phase, app, bind = cell
    if phase == "keepalive-idle" and wc == "sync":
        return "skip"
    second = bind == "two-second"       # the request travels over the second of two listeners, the first one stays idle
    mixed = bind == "tcp+unix"          # a TCP listener listed before a unix one
    if second:
        bind = "two"
    binds = "tcp" if bind in ("two", "tcp+unix") else bind
    aged = app == "finishes-late-aged"  # the worker is older than graceful_timeout when the signal arrives
    late = app == "finishes-late" or aged
    graceful_s = GRACEFUL + 2 if late else GRACEFUL
    if late:
        app = "finishes"
    s = rp.Server(worker_class=wc, workers=1, bind=binds, graceful_timeout=graceful_s, timeout=30, keepalive=5,
                  threads=2 if wc == "gthread" else None, extra_binds=1 if bind == "two" else 0, extra_unix=mixed)
    try:
        if not s.start():
            return ("infrastructure", "server did not start: %s" % s.log_text()[-300:])
        if aged:
            time.sleep(graceful_s + 0.6)
        c = s.connect(extra=0) if second else s.connect()
        gate_name = None
        expect_body = None
        if phase == "accepted-idle":
            time.sleep(0.3)
        elif phase == "head-partial":
            path = b"/hang" if app == "never" else (b"/gate/h" if app == "overruns" else b"/plain")
            c.sendall(b"GET " + path + b" HTTP/1.1\r\nHo")
            time.sleep(0.3)
        elif phase == "app-running":
            if app == "never":
                c.sendall(b"GET /hang HTTP/1.1\r\nHost: h\r\n\r\n")
                time.sleep(0.4)
            else:
                c.sendall(b"GET /gate/a HTTP/1.1\r\nHost: h\r\n\r\n")
                gate_name = "app:a"
                if s.gate.wait_entered(gate_name, 8) is None:
                    return ("infrastructure", "application never reached its gate")
                expect_body = b"gated-ok"
        elif phase == "response-partial":
            c.sendall(b"GET /partial/p HTTP/1.1\r\nHost: h\r\n\r\n")
            gate_name = "partial:p"
            if s.gate.wait_entered(gate_name, 8) is None:
                return ("infrastructure", "application never reached its gate")
            expect_body = b"first-second"
        elif phase == "keepalive-idle":
            c.sendall(b"GET /plain HTTP/1.1\r\nHost: h\r\n\r\n")
            head, body, complete, closed = rp.read_response(c, 5)
            if not complete:
                return ("infrastructure", "warm-up request failed")
            time.sleep(0.2)
        t_sig = time.time()
        s.signal(getattr(signal, "SIG" + sig_name))
        time.sleep(0.15)
        v = None
        graceful = sig_name == "TERM"
        if phase == "head-partial" and app in ("finishes", "overruns"):
            try:
                c.sendall(b"st: h\r\n\r\n")
            except OSError:
                pass            # a quick shutdown may already have closed the connection
            if app == "finishes":
                expect_body = b"ok"
        if late:
            # the application finishes well inside the graceful timeout, but after the worker has begun draining
            time.sleep(2.4 if aged else 1.6)      # aged: longer than any forced 1 s + 1 s stop, shorter than graceful_timeout
        if gate_name and app == "finishes":
            s.gate.release(gate_name)
        if graceful and app == "finishes" and expect_body is not None:
            head, body, complete, closed = rp.read_response(c, graceful_s + 4)
            if not complete or body != expect_body:
                v = ("in-flight-request-not-answered:%s" % phase,
                     "request in phase %s was held when TERM arrived, the application finished at once, but the client got head=%r body=%r (complete=%s)" % (
                         phase, head[:60], body, complete))
        status = s.wait_exit(graceful_s + 6)
        took = time.time() - t_sig
        if status is None:
            v = v or ("master-did-not-exit", "master still running %.1f s after %s (graceful_timeout %d)" % (took, sig_name, GRACEFUL))
        else:
            if status != 0:
                v = v or ("exit-status", "master exit status %r after %s" % (status, sig_name))
            limit = graceful_s + 3.0
            if took > limit:
                v = v or ("exit-too-late", "master exited %.1f s after %s, graceful_timeout %d" % (took, sig_name, GRACEFUL))
            if not graceful and app == "finishes" and phase in ("accepted-idle", "keepalive-idle") and took > 2.5:
                v = v or ("quick-shutdown-slow", "quick shutdown took %.1f s with nothing in flight" % took)
            surv = s.survivors(2.0)
            if surv:
                v = v or ("process-survives", "after the master exited, processes %r of its session are still alive" % surv)
            if s.can_connect():
                v = v or ("still-listening", "connect succeeds after the master exited")
            if s.pidfile and os.path.exists(s.pidfile):
                v = v or ("pidfile-left", "pid file still exists")
            if bind == "unix" and os.path.exists(s.sockpath):
                v = v or ("unix-socket-left", "unix socket file still exists")
            if mixed and os.path.exists(s.extra_unix_path):
                v = v or ("unix-socket-left", "unix socket file of the second listener still exists (binds: tcp, unix)")
        if gate_name and app != "finishes":
            s.gate.release(gate_name)
        try:
            c.close()
        except OSError:
            pass
        return v
    finally:
        s.cleanup()


def real_cells(thorough):
    cells = []
    classes = ("sync", "gthread", "gevent", "eventlet")
    if thorough:
        for wc in classes:
            for sig_name in ("TERM", "INT", "QUIT"):
                for phase in PHASES:
                    for app in ("finishes", "overruns", "never"):
                        for bind in ("tcp", "unix"):
                            cells.append((wc, sig_name, phase, app, bind))
            for phase in ("app-running", "response-partial", "head-partial"):
                cells.append((wc, "TERM", phase, "finishes", "two"))
                cells.append((wc, "TERM", phase, "finishes-late", "two"))
                cells.append((wc, "TERM", phase, "finishes-late", "two-second"))
                cells.append((wc, "TERM", phase, "finishes-late", "unix"))
                cells.append((wc, "QUIT", phase, "finishes", "tcp+unix"))
                cells.append((wc, "TERM", phase, "finishes", "tcp+unix"))
                cells.append((wc, "TERM", phase, "finishes-late-aged", "tcp"))
    else:
        for wc in classes:
            for phase in PHASES:
                cells.append((wc, "TERM", phase, "finishes", "tcp" if phase != "app-running" else "unix"))
            cells.append((wc, "TERM", "app-running", "overruns", "tcp"))
            cells.append((wc, "TERM", "app-running", "never", "unix"))
            cells.append((wc, "QUIT", "app-running", "finishes", "unix"))
            cells.append((wc, "INT", "keepalive-idle", "finishes", "tcp"))
            cells.append((wc, "TERM", "app-running", "finishes", "two"))
            cells.append((wc, "TERM", "app-running", "finishes-late", "two"))
            cells.append((wc, "TERM", "app-running", "finishes-late", "two-second"))
            cells.append((wc, "TERM", "response-partial", "finishes-late", "tcp"))
            cells.append((wc, "TERM", "accepted-idle", "finishes", "tcp+unix"))
            cells.append((wc, "TERM", "app-running", "finishes-late-aged", "tcp"))
    for wc in classes:
        cells.append((wc, "TERM", "accepted-idle", "helper-at-import", "tcp"))
    cells.append(("sync", "QUIT", "accepted-idle", "helper-at-import", "unix"))
    cells.append(("sync", "TERM", "app-running", "failing-exit-hook", "tcp"))
    cells.append(("sync", "TERM", "app-running", "failing-exit-hook", "unix"))
    return [c for c in cells if not (c[2] == "keepalive-idle" and c[0] == "sync")]


def real_part(thorough, seed):
    cells = real_cells(thorough)
    order = list(cells)
    random.Random(seed).shuffle(order)
    results = par.pmap(real_cell, order, jobs=14)
    viols = []
    unconfirmed = []
    infra = 0
    for cell, v in zip(order, results):
        if v is None or v == "skip":
            continue
        # an anomaly counts only if it reproduces on an immediate serial re-run
        v2 = real_cell(cell)
        if v2 is None or v2 == "skip" or v2[0] != v[0]:
            unconfirmed.append({"cell": list(cell), "first": v[0]})
            continue
        if v[0] == "infrastructure":
            infra += 1
            continue
        wc, sig_name, phase, app, bind = cell
        viols.append(violation("real:%s:%s" % (v[0], wc), "worker=%s signal=%s phase=%s app=%s bind=%s: %s" % (wc, sig_name, phase, app, bind, v[1]),
                               {"part": "real", "cell": list(cell)}))
    return {"cells": len(cells), "viols": viols, "unconfirmed": unconfirmed, "infrastructure_failures": infra}


def run(ctx):
    t0 = time.time()
    sim = sim_part(ctx.thorough)
    t1 = time.time()
    real = real_part(ctx.thorough, ctx.seed)
    cov = {
        "evaluations": sim["runs"] + real["cells"],
        "distinct_nontrivial": sim["transitions"] + real["cells"],
        "rule": "sim: one case per (workers, timeout, worker reaction to TERM, bind, pool history of <=d events, stop event) + one per mid-flight event at every "
                "delivery point of the shutdown; real: one case per (worker class, signal, connection phase, application behaviour, bind) with the connection "
                "held in that phase by a gate; all are shutdown scenarios, hence non-trivial",
        "samples": [{"sim": {"history": [["sig", "TTIN"]], "stop": ["sig", "TERM"], "term": "late"}},
                    {"real": ["gthread", "TERM", "response-partial", "finishes", "tcp"]}],
        "exhaustive": True,
        "sim_transitions": sim["transitions"], "sim_runs_with_midflight": sim["runs"],
        "real_cells": real["cells"], "real_unconfirmed": real["unconfirmed"], "real_infrastructure_failures": real["infrastructure_failures"],
        "sim_wall_s": round(t1 - t0, 1), "real_wall_s": round(time.time() - t1, 1),
        "phases": list(PHASES),
    }
    return Result("exploration", cov, sim["viols"] + real["viols"],
                  ["real-process cells use wall-clock upper bounds (graceful_timeout %d s + 3 s slack) and a 2 s settle window; an anomaly counts only if it reproduces serially" % GRACEFUL,
                   "simulated workers react to TERM at once / after 1.5 s / never; orphaned workers are not modelled",
                   "kernel scheduling inside a phase and TLS are outside the bound"])


def replay(case):
    if case["part"] == "real":
        v = real_cell(tuple(case["cell"]))
        if v and v != "skip":
            return violation("real:%s:%s" % (v[0], case["cell"][0]), v[1], case)
        return None
    return None
