"""C20 - workers always run with exactly the configured user and group.

(a) credential function on the real kernel: for every (user spelling, group spelling, initgroups)
    a forked child (we are root) calls the real util.set_owner_process(cfg.uid, cfg.gid,
    cfg.initgroups) exactly as Worker.init_process does, then reports getresuid/getresgid/getgroups.
(c) real servers as root: configuration x worker class x history of {start, worker killed, HUP with
    the same config, HUP that introduces user/group, USR2}: /proc/<pid>/status of the master and of
    every worker of every generation, ids seen by the application at import time and per request,
    heartbeat still working, unix socket owned by the configured ids."""
import grp
import os
import pwd
import random
import signal
import stat
import time

from vlib import par, realproc as rp
from vlib.runner import Result, violation

USERS = [None, "www-data", 33, "nobody", 65534, 4242]        # 4242: a numeric uid without a passwd entry
# accounts whose uid differs from their primary gid (a name must resolve to the uid, not the gid)
USERS += [u for u in ("games", "man") if any(p_.pw_name == u and p_.pw_uid != p_.pw_gid for p_ in pwd.getpwall())]
GROUPS = [None, "www-data", 33, "nogroup", 0, "daemon", 2147483653]      # the last one: a valid gid above 2**31


def expected_groups(uid, gid):
    name = pwd.getpwuid(uid).pw_name
    gs = {g.gr_gid for g in grp.getgrall() if name in g.gr_mem}
    gs.add(gid)
    return tuple(sorted(gs))


def cred_cell(cell):
    """Fork; in the child build the real Config, call the real set_owner_process, report ids."""
    user, group, initgroups = cell[:3]
    start = cell[3] if len(cell) > 3 else "root"
    r, w = os.pipe()
    pid = os.fork()
    if pid == 0:
        try:
            os.close(r)
            from gunicorn.config import Config
            from gunicorn import util
            c = Config()
            if user is not None:
                c.set("user", user)
            if group is not None:
                c.set("group", group)
            c.set("initgroups", initgroups)
            calls = []
            real_initgroups = os.initgroups

            def spy(name, g):
                calls.append((name, g))
                return real_initgroups(name, g)
            os.initgroups = spy
            if start == "root":
                os.setgroups([0, 42])        # the master's own supplementary groups: must not survive initgroups
            if start == "gid-preset":
                # the master already runs with the configured group (systemd Group= without User=, `sg`, docker --user 0:gid)
                # and with supplementary groups of its own
                os.setgroups([0, 42])
                os.setresgid(c.gid, c.gid, c.gid)
            elif start == "egid-preset":
                os.setgroups([0, 42])
                os.setegid(c.gid)
            try:
                util.set_owner_process(c.uid, c.gid, initgroups=c.initgroups)
                out = repr((c.uid, c.gid, os.getresuid(), os.getresgid(), tuple(sorted(os.getgroups())), None, calls))
            except Exception as e:
                out = repr((c.uid, c.gid, os.getresuid(), os.getresgid(), tuple(sorted(os.getgroups())), "%s: %s" % (type(e).__name__, e), calls))
            os.write(w, out.encode())
        finally:
            os._exit(0)
    os.close(w)
    data = b""
    while True:
        d = os.read(r, 65536)
        if not d:
            break
        data += d
    os.close(r)
    os.waitpid(pid, 0)
    cuid, cgid, ruid, rgid, groups, err, calls = eval(data.decode())
    # what the configuration means, worked out here and not taken from gunicorn's own Config
    want_uid, want_gid = uid_of(user), gid_of(group)
    if (cuid, cgid) != (want_uid, want_gid):
        return ("configured-identity-misread", "user=%r group=%r: Config says uid=%r gid=%r, the system's account database says %r / %r" % (
            user, group, cuid, cgid, want_uid, want_gid))
    if err:
        return ("set-owner-raised", "user=%r group=%r initgroups=%s start=%s: %s" % (user, group, initgroups, start, err))
    master_groups = tuple(sorted(os.getgroups()))
    if ruid != (cuid, cuid, cuid):
        return ("uid-not-dropped" + (":user-only" if group is None else ""), "user=%r group=%r initgroups=%s: (r,e,s)uid=%r, configured uid %d" % (user, group, initgroups, ruid, cuid))
    if rgid != (cgid, cgid, cgid):
        return ("gid-not-set" + (":initgroups" if initgroups else ""), "user=%r group=%r initgroups=%s: (r,e,s)gid=%r, configured gid %d" % (user, group, initgroups, rgid, cgid))
    if initgroups and user is not None and group is not None and cgid != 0 and user != 4242:
        want = expected_groups(cuid, cgid)
        name = pwd.getpwuid(cuid).pw_name
        if calls and any(c_[0] != name for c_ in calls):
            return ("supplementary-groups:initgroups-for-another-account", "user=%r (uid %d, account %r) group=%r: os.initgroups was called as %r" % (
                user, cuid, name, group, calls))
        if groups != want:
            return ("supplementary-groups" + ("" if start == "root" else ":master-has-the-group-already"),
                    "user=%r group=%r initgroups, master identity %s: groups=%r expected %r" % (user, group, start, groups, want))
    return None


# ---------------------------------------------------------------- real servers ------------------

def ids_of(pid):
    st = rp.proc_status(pid)
    if st is None:
        return None
    return (tuple(int(x) for x in st["Uid"].split()[:3]), tuple(int(x) for x in st["Gid"].split()[:3]),
            tuple(sorted(int(x) for x in st.get("Groups", "").split())))


def uid_of(user):
    if user is None:
        return 0
    return user if isinstance(user, int) else pwd.getpwnam(user).pw_uid


def gid_of(group):
    if group is None:
        return 0
    return group if isinstance(group, int) else grp.getgrnam(group).gr_gid


def check_workers(s, master, uid, gid, initgroups, user, where):
    ws = s.workers(master)
    if not ws:
        return ("no-workers", "%s: the master has no worker" % where)
    for w in ws:
        # a freshly forked worker is still root until init_process ran: give it a moment
        got = None
        for _ in range(40):
            got = ids_of(w)
            if got is None or (got[0] == (uid,) * 3 and got[1] == (gid,) * 3):
                break
            time.sleep(0.05)
        if got is None:
            continue
        if got[0] != (uid,) * 3:
            return ("worker-uid", "%s: worker %d has (r,e,s)uid %r, configured %d" % (where, w, got[0], uid))
        if got[1] != (gid,) * 3:
            return ("worker-gid" + (":initgroups" if initgroups else ""), "%s: worker %d has (r,e,s)gid %r, configured %d" % (where, w, got[1], gid))
        if initgroups and user is not None:
            want = expected_groups(uid, gid)
            if got[2] != want:
                return ("worker-groups", "%s: worker %d has groups %r, expected %r" % (where, w, got[2], want))
    m = ids_of(master)
    if m is not None and (m[0] != (0, 0, 0) or m[1] != (0, 0, 0)):
        return ("master-identity-changed", "%s: master has uid %r gid %r" % (where, m[0], m[1]))
    return None


def request_ids(s):
    c = s.connect()
    c.sendall(b"GET /plain HTTP/1.1\r\nHost: h\r\nConnection: close\r\n\r\n")
    head, body, complete, closed = rp.read_response(c, 5)
    c.close()
    if not complete:
        return None
    return rp.header(head, "X-Ids"), rp.header(head, "X-Pid")


def check_app_view(s, uid, gid, where):
    r = request_ids(s)
    if r is None or r[0] is None:
        return ("request-failed", "%s: no reply from the server (log tail: %s)" % (where, s.log_text()[-200:]))
    now_uid, now_gid, now_groups, at_import = eval("(" + r[0].replace("|", ",") + ")")
    if tuple(now_uid) != (uid,) * 3 or tuple(now_gid) != (gid,) * 3:
        return ("application-ran-with-wrong-ids", "%s: request handled with uid %r gid %r" % (where, now_uid, now_gid))
    if tuple(at_import[0]) != (uid,) * 3 or tuple(at_import[1]) != (gid,) * 3:
        return ("application-imported-with-wrong-ids", "%s: application module was imported with uid %r gid %r" % (where, at_import[0], at_import[1]))
    return None


def real_cell(cell):
    wc, user, group, initgroups, history = cell
    uid, gid = uid_of(user), gid_of(group)
    late_identity = history == "hup-adds-identity"
    via_env = history == "usr2-env"          # the identity is configured through GUNICORN_CMD_ARGS, not the file
    if via_env:
        history = "usr2"
    extra = {"umask": 0o117}
    env = None
    if via_env:
        toks = (["--user", str(user)] if user is not None else []) + (["--group", str(group)] if group is not None else []) + (["--initgroups"] if initgroups else [])
        env = {"GUNICORN_CMD_ARGS": " ".join(toks)}
    elif not late_identity:
        if user is not None:
            extra["user"] = user
        if group is not None:
            extra["group"] = group
        if initgroups:
            extra["initgroups"] = True
    s = rp.Server(worker_class=wc, workers=2, bind="unix", graceful_timeout=2, timeout=3, extra=extra, threads=2 if wc == "gthread" else None, env=env)
    os.chmod(s.dir, 0o755)
    try:
        if not s.start():
            return ("infrastructure", "server did not start: %s" % s.log_text()[-300:])
        time.sleep(0.3)
        cu, cg = (0, 0) if late_identity else (uid, gid)
        v = check_workers(s, s.master_pid, cu, cg, initgroups and not late_identity, user, "after start")
        v = v or check_app_view(s, cu, cg, "after start")
        if v:
            return v
        st = os.stat(s.sockpath)
        if (st.st_uid, st.st_gid) != (cu, cg):
            return ("unix-socket-owner", "socket file owned by %d:%d, configured %d:%d" % (st.st_uid, st.st_gid, cu, cg))
        master = s.master_pid
        if history == "kill-worker":
            w = s.workers()[0]
            os.kill(w, signal.SIGKILL)
            time.sleep(1.0)
            v = check_workers(s, master, uid, gid, initgroups, user, "after a worker was killed") or check_app_view(s, uid, gid, "after respawn")
        elif history == "hup-new-socket":
            # the reloaded configuration binds another unix socket: it is created by the running master and belongs to the configured ids too
            old = set(s.workers())
            s.sockpath = os.path.join(s.dir, "g-new.sock")
            s.write_conf()
            s.signal(signal.SIGHUP)
            end = time.time() + 8
            while time.time() < end and (set(s.workers()) & old or len(s.workers()) < 2 or not os.path.exists(s.sockpath)):
                time.sleep(0.1)
            time.sleep(0.3)
            if not os.path.exists(s.sockpath):
                return ("new-socket-missing", "after HUP with a new bind the socket file does not exist: %s" % s.log_text()[-200:])
            st2 = os.stat(s.sockpath)
            if (st2.st_uid, st2.st_gid) != (uid, gid):
                return ("unix-socket-owner:after-reload", "the socket created by the reload is owned by %d:%d, configured %d:%d" % (st2.st_uid, st2.st_gid, uid, gid))
            v = check_workers(s, master, uid, gid, initgroups, user, "after HUP with a new bind") or check_app_view(s, uid, gid, "after HUP with a new bind")
        elif history in ("hup", "hup-adds-identity"):
            if late_identity:
                if user is not None:
                    s.cfg["user"] = user
                if group is not None:
                    s.cfg["group"] = group
                if initgroups:
                    s.cfg["initgroups"] = True
                s.write_conf()
            old = set(s.workers())
            s.signal(signal.SIGHUP)
            end = time.time() + 8
            while time.time() < end and (set(s.workers()) & old or len(s.workers()) < 2):
                time.sleep(0.1)
            time.sleep(0.3)
            v = check_workers(s, master, uid, gid, initgroups, user, "after HUP") or check_app_view(s, uid, gid, "after HUP")
        elif history == "usr2":
            s.signal(signal.SIGUSR2)
            end = time.time() + 8
            new_master = None
            while time.time() < end and new_master is None:
                for p, _st in rp.proc_children(master):
                    cmd = open("/proc/%d/cmdline" % p, "rb").read() if os.path.exists("/proc/%d/cmdline" % p) else b""
                    if rp.proc_children(p):
                        new_master = p
                time.sleep(0.1)
            if new_master is None:
                return ("infrastructure", "no new master after USR2")
            time.sleep(0.5)
            v = check_workers(s, new_master, uid, gid, initgroups, user, "workers of the upgraded master")
            try:
                os.kill(new_master, signal.SIGTERM)
            except OSError:
                pass
        if v:
            return v
        # the heartbeat keeps working: nobody is killed for inactivity within 2 x timeout
        before = set(s.workers(master))
        time.sleep(4.0 if history in ("start", "hup-adds-identity", "hup") else 1.0)
        if "WORKER TIMEOUT" in s.log_text():
            return ("heartbeat-broken", "WORKER TIMEOUT logged for an idle worker: %s" % [l for l in s.log_text().splitlines() if "TIMEOUT" in l or "Error" in l][:3])
        if history in ("start", "hup", "hup-adds-identity") and set(s.workers(master)) != before:
            return ("workers-restarted", "idle workers changed %r -> %r: %s" % (sorted(before), sorted(s.workers(master)), s.log_text()[-300:]))
        return check_app_view(s, uid, gid, "at the end")
    finally:
        s.cleanup()


def _drop_setid_caps():
    """preexec: remove CAP_SETGID (6) and CAP_SETUID (7) from the bounding set - after exec, uid 0 can no longer change ids
    (a container started with --cap-drop SETUID --cap-drop SETGID)."""
    import ctypes
    libc = ctypes.CDLL(None, use_errno=True)
    for cap in (6, 7):
        libc.prctl(24, cap, 0, 0, 0)          # PR_CAPBSET_DROP


def nocap_cell(cell):
    """The master cannot change ids at all: it must not run application code under the wrong identity - refusing to run is fine."""
    wc, user, group = cell
    uid, gid = uid_of(user), gid_of(group)
    s = rp.Server(worker_class=wc, workers=1, bind="unix", graceful_timeout=2, timeout=5, extra={"user": user, "group": group},
                  threads=2 if wc == "gthread" else None)
    s.preexec_fn = _drop_setid_caps
    os.chmod(s.dir, 0o755)
    try:
        started = s.start(attempts=1, wait=6.0)
        if not started:
            return None                       # "Worker failed to boot": the server refuses to run
        r = None
        try:
            r = request_ids(s)
        except OSError:
            r = None
        if r is None or r[0] is None:
            return None
        now_uid, now_gid, now_groups, at_import = eval("(" + r[0].replace("|", ",") + ")")
        if tuple(now_uid) != (uid,) * 3 or tuple(now_gid) != (gid,) * 3:
            return ("application-ran-with-wrong-ids:ids-cannot-be-changed", "the master lacks CAP_SETUID/CAP_SETGID; configured %r:%r, yet a request was served with uid %r gid %r "
                    "instead of the server refusing to run" % (user, group, now_uid, now_gid))
        return None
    finally:
        s.cleanup()


def real_cells(thorough):
    cells = []
    base = [("www-data", "www-data", False), ("nobody", None, False), (None, "nogroup", False), (33, 65534, False), ("www-data", "nogroup", True)]
    hist = ("start", "kill-worker", "hup", "hup-adds-identity", "usr2", "usr2-env", "hup-new-socket")
    for i, (u, g, ig) in enumerate(base):
        for j, h in enumerate(hist):
            classes = ("sync", "gthread", "gevent", "eventlet") if thorough else (("sync",) + (("gthread", "gevent", "eventlet")[(i + j) % 3],))
            for wc in classes:
                cells.append((wc, u, g, ig, h))
    return cells


def run(ctx):
    if os.geteuid() != 0:
        raise AssertionError("C20 needs to run as root to observe privilege dropping")
    cred = [(u, g, ig, "root") for u in USERS for g in GROUPS for ig in (False, True)]
    cred += [(u, g, ig, st) for u in USERS for g in GROUPS if g is not None for ig in (False, True) for st in ("gid-preset", "egid-preset")]
    cres = par.pmap(cred_cell, cred)
    viols = {}
    for cell, v in zip(cred, cres):
        if v and v[0] not in viols:
            viols[v[0]] = violation("cred:" + v[0], v[1], {"part": "cred", "cell": list(cell)})
    ncells = [(wc, "nobody", "nogroup") for wc in ("sync", "gthread", "gevent")]
    for cell, v in zip(ncells, par.pmap(nocap_cell, ncells, jobs=3)):
        if v and nocap_cell(cell):
            viols.setdefault("real:" + v[0], violation("real:" + v[0], "worker=%s: %s" % (cell[0], v[1]), {"part": "nocap", "cell": list(cell)}))
    cells = real_cells(ctx.thorough)
    order = list(cells)
    random.Random(ctx.seed).shuffle(order)
    rres = par.pmap(real_cell, order, jobs=14)
    unconfirmed = []
    infra = 0
    for cell, v in zip(order, rres):
        if v is None:
            continue
        v2 = real_cell(cell)
        if v2 is None or v2[0] != v[0]:
            unconfirmed.append({"cell": [str(x) for x in cell], "first": v[0]})
            continue
        if v[0] == "infrastructure":
            infra += 1
            continue
        fp = "real:%s" % v[0]
        if fp not in viols:
            viols[fp] = violation(fp, "worker=%s user=%r group=%r initgroups=%s history=%s: %s" % (cell + (v[1],)), {"part": "real", "cell": list(cell)})
    cov = {
        "evaluations": len(cred) + len(cells),
        "distinct_nontrivial": sum(1 for c in cred if c[0] is not None or c[1] is not None) + len(cells),
        "rule": "cred: every (user spelling, group spelling, initgroups, identity the master starts with: root/0, root with the configured gid already, "
                "root with only the effective gid already) of %d x %d x 2 x 3 on the real kernel; real: every (worker class, identity configuration, history) "
                "cell; non-trivial = an identity is configured" % (len(USERS), len(GROUPS)),
        "samples": [{"cred": ["www-data", "nogroup", True]}, {"real": ["gevent", "nobody", None, False, "hup-adds-identity"]}],
        "exhaustive": True,
        "credential_cells": len(cred), "real_cells": len(cells) + len(ncells), "real_unconfirmed": unconfirmed, "real_infrastructure_failures": infra,
    }
    return Result("exploration", cov, list(viols.values()),
                  ["runs as root (uid 0) so that privilege dropping is observable on the real kernel",
                   "without initgroups the supplementary groups are not judged (the property only speaks of them with initgroups)",
                   "preload_app (application imported in the master) is outside the property"])


def replay(case):
    if case["part"] == "nocap":
        v = nocap_cell(tuple(case["cell"]))
        return violation("real:" + v[0], v[1], case) if v else None
    if case["part"] == "cred":
        c = case["cell"]
        v = cred_cell(tuple(c))
        return violation("cred:" + v[0], v[1], case) if v else None
    c = case["cell"]
    v = real_cell(tuple(c))
    return violation("real:" + v[0], v[1], case) if v else None
