"""C06 - parsing does not depend on how bytes are split across reads.

Decides by: for every stream of a delimiter-dense corpus and every parser configuration in CONFIGS,
ALL segmentations with at most k cuts (plus byte-by-byte and line-by-line) are fed to the real
RequestParser; the observation (every request field, body bytes, trailers, how and where the
sequence ended) must equal the observation of the unsegmented stream."""
import random

from vlib import gparse, par
from vlib.runner import Result, violation

CRLF = b"\r\n"


def _corpus():
    S = []

    def add(name, data, cfgs=("default", "small"), proxy=False):
        S.append({"name": name, "data": data, "cfgs": cfgs if not proxy else ("proxy",)})

    nxt = b"GET /next HTTP/1.1\r\nHost: n\r\n\r\n"
    add("get-nohdr+next", b"GET / HTTP/1.1\r\n\r\n" + nxt)
    add("get-hdrs+next", b"GET /a?b=c HTTP/1.1\r\nHost: x\r\nA: b\r\n\r\n" + nxt, cfgs=("default", "small") + CLAMP)
    add("cl-body+next", b"POST /p HTTP/1.1\r\nContent-Length: 5\r\nA: b\r\n\r\nhe\r\no" + nxt, cfgs=("default", "small") + CLAMP)
    add("cl0+next", b"POST /p HTTP/1.1\r\nContent-Length: 0\r\n\r\n" + nxt)
    add("chunked-ext-trailer+next",
        b"POST /c HTTP/1.1\r\nTransfer-Encoding: chunked\r\n\r\n3;x=y\r\nabc\r\n1 ;z\r\nd\r\n0\r\nT: 1\r\n\r\n" + nxt, cfgs=("default", "small") + CLAMP)
    add("chunked-notrailer+next",
        b"POST /c HTTP/1.1\r\nTransfer-Encoding: chunked\r\n\r\n2\r\n\r\n\r\n1\r\n\n\r\n0\r\n\r\n" + nxt)
    add("chunked-a-hex+next",
        b"PUT /c HTTP/1.1\r\nTransfer-Encoding: chunked\r\n\r\nA\r\n0123456789\r\n00\r\n\r\n" + nxt)
    add("chunked-crlfcrlf-in-data+next",
        b"POST /c HTTP/1.1\r\nTransfer-Encoding: chunked\r\n\r\n4\r\n\r\n\r\n\r\n0\r\nX: y\r\n\r\n" + nxt)
    add("http10-close", b"GET /old HTTP/1.0\r\nA: b\r\n\r\n" + nxt)
    add("conn-close", b"GET /c HTTP/1.1\r\nConnection: close\r\n\r\n" + nxt)
    add("three-pipelined", b"GET /1 HTTP/1.1\r\n\r\nGET /2 HTTP/1.1\r\nA: b\r\n\r\nGET /3 HTTP/1.1\r\n\r\n")
    # truncated
    add("trunc-head", b"GET /t HTTP/1.1\r\nHost: x\r\nA")
    add("trunc-line", b"GET /t HTT")
    add("trunc-cl-body", b"POST /p HTTP/1.1\r\nContent-Length: 9\r\n\r\nabc")
    add("trunc-chunk", b"POST /c HTTP/1.1\r\nTransfer-Encoding: chunked\r\n\r\n5\r\nab")
    add("trunc-chunk-crlf", b"POST /c HTTP/1.1\r\nTransfer-Encoding: chunked\r\n\r\n2\r\nab\r")
    add("trunc-trailer", b"POST /c HTTP/1.1\r\nTransfer-Encoding: chunked\r\n\r\n1\r\na\r\n0\r\nT: 1\r\n")
    # must-reject streams: the rejection point must not move either
    add("bad-chunk-size+next", b"POST /c HTTP/1.1\r\nTransfer-Encoding: chunked\r\n\r\n1\r\na\r\nZ\r\nb\r\n0\r\n\r\n" + nxt)
    add("bad-chunk-term+next", b"POST /c HTTP/1.1\r\nTransfer-Encoding: chunked\r\n\r\n1\r\nab\r\n0\r\n\r\n" + nxt)
    add("obs-fold", b"GET /f HTTP/1.1\r\nA: b\r\n c\r\n\r\n" + nxt)
    add("cl+te", b"POST /x HTTP/1.1\r\nContent-Length: 3\r\nTransfer-Encoding: chunked\r\n\r\n3\r\nabc\r\n0\r\n\r\n" + nxt)
    add("bad-name", b"GET /n HTTP/1.1\r\nA b: c\r\n\r\n" + nxt)
    add("underscore-name", b"GET /n HTTP/1.1\r\nA_b: c\r\nD: e\r\n\r\n" + nxt, cfgs=("default", "refuse"))
    add("bad-version", b"GET /n HTTP/1.10\r\n\r\n" + nxt)
    add("bare-lf-head", b"GET /n HTTP/1.1\nA: b\r\n\r\n" + nxt)
    add("second-bad", b"GET /ok HTTP/1.1\r\n\r\nGET /bad HTTP/9.9\r\n\r\n" + nxt)
    add("cl-nondigit", b"POST /n HTTP/1.1\r\nContent-Length: 1x\r\n\r\nab" + nxt)
    add("leading-crlf", b"\r\nGET /n HTTP/1.1\r\n\r\n")
    add("trailer-bad-name+next", b"POST /c HTTP/1.1\r\nTransfer-Encoding: chunked\r\n\r\n0\r\nT x: 1\r\n\r\n" + nxt)
    # size limits reached exactly / exceeded, under the small configuration
    add("small-line-at-limit", b"GET /" + b"a" * 18 + b" HTTP/1.1\r\nA: b\r\n\r\n" + nxt, cfgs=("small",))
    add("small-line-over", b"GET /" + b"a" * 19 + b" HTTP/1.1\r\nA: b\r\n\r\n" + nxt, cfgs=("small",))
    add("small-field-at-limit", b"GET / HTTP/1.1\r\nA: " + b"b" * 19 + b"\r\n\r\n" + nxt, cfgs=("small",))
    add("small-field-over", b"GET / HTTP/1.1\r\nA: " + b"b" * 20 + b"\r\n\r\n" + nxt, cfgs=("small",))
    add("small-3fields", b"GET / HTTP/1.1\r\nA: 1\r\nB: 2\r\nC: 3\r\n\r\n" + nxt, cfgs=("small",))
    add("small-4fields", b"GET / HTTP/1.1\r\nA: 1\r\nB: 2\r\nC: 3\r\nD: 4\r\n\r\n" + nxt, cfgs=("small",))
    add("small-line-over-unterminated", b"GET /" + b"a" * 60, cfgs=("small",))
    add("small-line-over-unterminated-2nd", b"GET / HTTP/1.1\r\n\r\nGET /" + b"a" * 60, cfgs=("small",))
    add("small-field-over-unterminated", b"GET / HTTP/1.1\r\nA: " + b"b" * 200, cfgs=("small",))
    add("small-block-over+bad-line", b"GET / HTTP/1.1\r\nbad line\r\nA: 1\r\nB: " + b"2" * 18 + b"\r\nC: " + b"3" * 18 + b"\r\nD: " + b"4" * 18 + b"\r\n\r\n" + nxt, cfgs=("small",))
    add("small-block-over+bad-name", b"GET / HTTP/1.1\r\nA b: 1\r\nB: " + b"2" * 18 + b"\r\nC: " + b"3" * 18 + b"\r\nD: " + b"4" * 18 + b"\r\nE: 5\r\n\r\n" + nxt, cfgs=("small",))
    add("small-body-after-head", b"POST / HTTP/1.1\r\nContent-Length: 90\r\n\r\n" + b"x" * 90 + nxt, cfgs=("small",))
    # PROXY protocol line
    add("proxy-v1", b"PROXY TCP4 10.0.0.1 10.0.0.2 1111 80\r\nGET /p HTTP/1.1\r\nA: b\r\n\r\n" + nxt, proxy=True)
    add("proxy-bad", b"PROXY TCP9 10.0.0.1 10.0.0.2 1111 80\r\nGET /p HTTP/1.1\r\n\r\n", proxy=True)
    return S


CONFIGS = {
    "default": {},
    "small": {"limit_request_line": 32, "limit_request_fields": 3, "limit_request_field_size": 24},
    "proxy": {"proxy_protocol": True, "proxy_allow_ips": "*"},
    # values at which the limit clamping code paths run
    "fields0": {"limit_request_fields": 0},
    "fields-max": {"limit_request_fields": 40000},
    "line0": {"limit_request_line": 0},
    "size0": {"limit_request_field_size": 0, "limit_request_fields": 2},
    "refuse": {"header_map": "refuse"},
}
CLAMP = ("fields0", "fields-max", "line0", "size0", "refuse")


def _long_corpus():
    """Streams crossing the 8192-byte read size and the default limits."""
    L = []
    nxt = b"GET /next HTTP/1.1\r\nHost: n\r\n\r\n"
    L.append(("long-field-8190", b"GET / HTTP/1.1\r\nA: " + b"v" * 8185 + b"\r\nB: c\r\n\r\n" + nxt))
    L.append(("long-field-8191", b"GET / HTTP/1.1\r\nA: " + b"v" * 8186 + b"\r\nB: c\r\n\r\n" + nxt))
    L.append(("long-line-8190", b"GET /" + b"a" * 8176 + b" HTTP/1.1\r\nB: c\r\n\r\n" + nxt))
    L.append(("long-line-8191", b"GET /" + b"a" * 8177 + b" HTTP/1.1\r\nB: c\r\n\r\n" + nxt))
    L.append(("long-line-unterminated", b"GET /" + b"a" * 9000))
    L.append(("long-line-unterminated-short-of-a-read", b"GET /" + b"a" * 5000))
    L.append(("long-cl-body", b"POST /b HTTP/1.1\r\nContent-Length: 9000\r\n\r\n" + (b"0123456789\r\n" * 750) + nxt))
    L.append(("long-chunks", b"POST /b HTTP/1.1\r\nTransfer-Encoding: chunked\r\n\r\n"
              + b"2000\r\n" + b"x" * 8192 + b"\r\n" + b"401\r\n" + b"y" * 1025 + b"\r\n0\r\nT: 1\r\n\r\n" + nxt))
    return L


def _obs(chunks, cfg):
    reqs, kind, exc, text = gparse.parse_stream(chunks, cfg)
    over = tuple(gparse.parse_stream.last_overreads)
    _obs.last_over = over
    # how the sequence ended: clean end / truncated / rejected - and, for a rejection, as what (the client is told 400, 414,
    # 431 ... accordingly): that must not depend on the segmentation either
    return (tuple(r[:8] for r in reqs), kind if kind != "reject" else "reject:" + exc), (exc, text)


def _touches_delim(data, cuts):
    for c in cuts:
        if data[c - 1:c] in (b"\r", b"\n") or data[c:c + 1] in (b"\r", b"\n"):
            return True
    return False


def _diff(ref, got):
    (rr, rk), (gr, gk) = ref, got
    for i, (a, b) in enumerate(zip(rr, gr)):
        if a != b:
            names = ("method", "uri", "version", "headers", "body", "body_error", "trailers", "end_offset")
            for n, x, y in zip(names, a, b):
                if x != y:
                    return "request[%d].%s" % (i, n)
    if len(rr) != len(gr):
        return "request-count"
    if rk != gk:
        return "end:%s->%s" % (rk, gk)
    return None


def _ref_chunks(data):
    """Reference segmentation: the whole stream, in reads of at most 8192 bytes."""
    return gparse.cut(data, tuple(range(8192, len(data), 8192)))


def _check_one(data, cfgname, cuts):
    cfg = gparse.make_cfg(**CONFIGS[cfgname])
    ref, _ = _obs(_ref_chunks(data), cfg)
    got, (exc, text) = _obs(gparse.cut(data, cuts), cfg)
    d = _diff(ref, got)
    if d is None and _obs.last_over:
        i, extra = _obs.last_over[0]
        return violation("over-read:request-complete-but-parser-reads-on", "stream %r cfg=%s cuts=%s: request %d was complete, yet the parser pulled %d more read(s) before "
                         "handing out its body - on a live socket it would block" % (data[:60], cfgname, list(cuts), i, extra),
                         {"data": data.decode("latin-1"), "cfg": cfgname, "cuts": list(cuts)})
    if d is None:
        return None
    fp = "segdep:%s:%s" % (d, exc if got[1].startswith("reject") else got[1])
    if exc == "LimitRequestHeaders":
        fp += ":" + text.replace(" ", "-")
    return violation(fp, "stream %r cfg=%s cuts=%s: %s differs from the unsegmented parse (whole=%s/%d reqs, cut=%s/%d reqs, %s %s)" % (
        data[:60], cfgname, list(cuts), d, ref[1], len(ref[0]), got[1], len(got[0]), exc, text),
        {"data": data.decode("latin-1"), "cfg": cfgname, "cuts": list(cuts)})


def _task(t):
    """One (stream, cfg, k, mode) cell: enumerate all segmentations."""
    name, data, cfgname, k, mode = t
    n = len(data)
    evals = nontriv = 0
    outcomes = set()
    viols = []
    if mode == "all":
        gen = gparse.all_cuts(n, k)
    elif mode == "special":
        lines = [i for i in range(1, n) if data[i - 1:i] == b"\n"]
        gen = iter([tuple(range(1, n)), tuple(lines), tuple(range(2, n, 2)), tuple(range(1, n, 3))])
    else:   # long streams: base cuts every 8192 plus <= k extra cuts inside windows around delimiters
        base = tuple(range(8192, n, 8192))
        win = set()
        for i in range(n - 1):
            if data[i:i + 2] == b"\r\n":
                win.update(range(max(1, i - 2), min(n, i + 5)))
        win.update(range(8186, min(n, 8200)))
        win = sorted(w for w in win if 0 < w < n)

        def g():
            import itertools
            for r in range(0, k + 1):
                for extra in itertools.combinations(win, r):
                    yield tuple(sorted(set(base) | set(extra)))
        gen = g()
    cfg = gparse.make_cfg(**CONFIGS[cfgname])
    ref, _ = _obs(_ref_chunks(data), cfg)
    for cuts in gen:
        evals += 1
        got, (exc, text) = _obs(gparse.cut(data, cuts), cfg)
        outcomes.add(got[1] + str(len(got[0])))
        if _touches_delim(data, cuts):
            nontriv += 1
        if got != ref or _obs.last_over:
            v = _check_one(data, cfgname, cuts)
            if v and len(viols) < 50:
                viols.append(v)
    return {"name": name, "cfg": cfgname, "evals": evals, "nontriv": nontriv,
            "ref": (ref[1], len(ref[0])), "viols": viols}


class _PathApp:
    def __init__(self):
        self.calls = []

    def __call__(self, environ, start_response):
        body = environ["wsgi.input"].read()
        self.calls.append((environ["PATH_INFO"], body))
        start_response("200 OK", [("Content-Length", "2")])
        return [b"ok"]


def _worker_task(t):
    """The same promise one level up: the requests a keep-alive worker hands to the application do not depend on how the
    connection's bytes were split over sends (every single cut, delivered while the handler waits for more)."""
    from vlib import bench
    kind, kw, sname, data, want = t
    viols = []
    n = 0
    for cut in [None] + list(range(1, len(data))):
        app = _PathApp()
        b = bench.Bench(kind, kw, app)
        try:
            if cut is None:
                o = b.connection(data)
                exc = o.exc
            else:
                il = bench.Interleaver(b)
                il.open("A", ("10.0.0.1", 5))
                il.send("A", data[:cut])
                il.send("A", data[cut:])
                c = il.close("A")
                exc = c["exc"]
        finally:
            b.close()
        n += 1
        if exc or app.calls != want:
            viols.append(violation("segdep:worker-level:%s" % kind, "worker=%s %r stream %s sent %s: application calls %r, expected %r%s" % (
                kind, kw, sname, "whole" if cut is None else "in two pieces cut at %d" % cut, app.calls, want, (" (handle() raised %s)" % exc) if exc else ""),
                {"worker_level": [kind, sname]}))
            break
    return {"name": "worker:" + sname, "cfg": kind, "evals": n, "nontriv": n, "ref": ("stop", len(want)), "viols": viols}


def _worker_tasks():
    T = []
    streams = {
        "three-pipelined": (b"GET /1 HTTP/1.1\r\n\r\nGET /2 HTTP/1.1\r\nA: b\r\n\r\nGET /3 HTTP/1.1\r\nConnection: close\r\n\r\n", [("/1", b""), ("/2", b""), ("/3", b"")]),
        "post+get": (b"POST /1 HTTP/1.1\r\nContent-Length: 5\r\n\r\nhelloGET /2 HTTP/1.1\r\nConnection: close\r\n\r\n", [("/1", b"hello"), ("/2", b"")]),
        "chunked+get": (b"POST /1 HTTP/1.1\r\nTransfer-Encoding: chunked\r\n\r\n3\r\nabc\r\n0\r\nT: 1\r\n\r\nGET /2 HTTP/1.1\r\nConnection: close\r\n\r\n", [("/1", b"abc"), ("/2", b"")]),
    }
    for kind, kw in (("async", {"keepalive": 2}), ("gthread", {"keepalive": 2, "threads": 1, "worker_connections": 4})):
        for sname, (data, want) in streams.items():
            T.append((kind, kw, sname, data, want))
    return T


def _dispatch(t):
    return _worker_task(t[1]) if t[0] == "~worker" else _task(t)


def run(ctx):
    k = 4 if ctx.thorough else 3
    tasks = []
    for s in _corpus():
        for c in s["cfgs"]:
            n = len(s["data"])
            if ctx.thorough:
                kk = 4 if n <= 64 else 3
            else:
                kk = 3 if n <= 90 else 2
            tasks.append((s["name"], s["data"], c, kk, "all"))
            tasks.append((s["name"], s["data"], c, 0, "special"))
    for name, data in _long_corpus():
        tasks.append((name, data, "default", 2 if ctx.thorough else 1, "long"))
    ntask_parser = len(tasks)
    tasks += [("~worker", t) for t in _worker_tasks()]
    rnd = random.Random(ctx.seed)
    order = list(range(len(tasks)))
    rnd.shuffle(order)                      # seed only permutes the visiting order
    res = par.pmap(_dispatch, [tasks[i] for i in order])
    tasks = tasks[:ntask_parser]
    res.sort(key=lambda r: (r["name"], r["cfg"]))
    viols = [v for r in res for v in r["viols"]]
    evals = sum(r["evals"] for r in res)
    nontriv = sum(r["nontriv"] for r in res)
    ref_classes = sorted(set("%s/%d" % tuple(r["ref"]) for r in res))
    samples = []
    for t in tasks[:: max(1, len(tasks) // 4)][:4]:
        samples.append({"stream": t[1][:80], "cfg": t[2], "max_cuts": t[3], "mode": t[4]})
    cov = {
        "evaluations": evals,
        "distinct_nontrivial": nontriv,
        "rule": "every (stream, config, set of <=k cut offsets) is one case, enumerated completely per stream; "
                "non-trivial = at least one cut lands next to a CR or LF (inside or adjacent to a delimiter)",
        "samples": samples,
        "exhaustive": True,
        "streams": len(set(t[0] for t in tasks)),
        "configs": sorted(CONFIGS),
        "max_cuts": k,
        "reference_outcome_classes": ref_classes,
        "cells": len(tasks),
    }
    return Result("exploration", cov, viols,
                  ["the parse of the stream in maximal reads (one read, or 8192-byte reads for longer streams) is the reference observation",
                   "streams longer than 8192 bytes are cut at least every 8192 bytes",
                   "a rejection is compared by position and by kind of error (it decides the status the client is told)"])


def replay(case):
    if "worker_level" in case:
        for t in _worker_tasks():
            if [t[0], t[2]] == list(case["worker_level"]):
                r = _worker_task(t)
                return r["viols"][0] if r["viols"] else None
        return None
    return _check_one(case["data"].encode("latin-1"), case["cfg"], tuple(case["cuts"]))
