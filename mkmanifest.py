#!/venv/bin/python
"""Regenerates MANIFEST.json from the table below (one source of truth for the interface)."""
import json
import os

ROOT = os.path.dirname(os.path.abspath(__file__))
BASE = json.load(open("/root/.vp/BASELINE.json"))["cmd"] if os.path.exists("/root/.vp/BASELINE.json") else \
    "cd /repo && /venv/bin/python -m pytest -ra -q -p no:cacheprovider --timeout=900 --continue-on-collection-errors --junitxml=<file>"

# id -> (category, engine, technique, level text, level note, design ref)
CHECKS = {}
NA = {}


def check(pid, cat, engine, technique, text, note, ref):
    CHECKS[pid] = dict(cat=cat, engine=engine, technique=technique, text=text, note=note, ref=ref)


check("C06", "exploration", "explore+gparse",
      "bounded-exhaustive enumeration of all read segmentations (<=k cuts) of a delimiter-dense corpus on the real RequestParser, differential against the maximal-read parse",
      "Every way of cutting each corpus stream into reads with at most k cuts (k=3 quick, 4 thorough on short streams), plus byte-wise and line-wise, is executed on the real parser under 3 configurations and compared field by field with the unsegmented parse. Complete within the stated bound; the right level because the property quantifies over schedules of reads and the defects live at single cut positions.",
      "Trusted: the corpus covers each delimiter kind; bugs needing more than k specific cuts or streams outside the corpus shapes are outside the bound.",
      "DESIGN.md section 3, C06")

check("C01", "exploration", "explore+gparse",
      "bounded-exhaustive enumeration of connection byte streams (slot grammar of framing fields / chunk syntax / request lines, plus every byte value substituted or inserted at every offset of seed streams) on the real RequestParser, judged in lock-step by an independent strict RFC 9112 reader",
      "Every stream of the stated finite spaces is parsed by the real parser under each safe configuration and compared message by message (body bytes, end offset, must-reject classes) with vlib/rfc_request.py, a three-valued reference reader that imports nothing from gunicorn and is first checked against the repository's own valid fixtures. Exhaustive within the alphabets: <=2 (thorough 3) framing lines from ~100 line variants, all 256 byte values at every offset of 9 seeds, pairs of odd bytes inside the TE/CL/chunk-size tokens.",
      "Trusted: the reference reader (Appendix A of DESIGN.md); streams needing more than the stated number of interacting odd tokens are outside the bound; documented-unsafe parser modes excluded; over-rejection is not a violation.",
      "DESIGN.md section 3, C01; Appendix A")

check("C07", "exploration", "explore+gparse",
      "bounded-exhaustive enumeration of all call sequences (programs) of length <=L over the wsgi.input API x bodies x framings x segmentations on the real RequestParser, compared call by call with io.BytesIO and with the pipelined next request",
      "All programs of up to 2 (thorough 3) calls over 21 operations (read/readline/readlines/next with sizes None,-1,0,1,2,1023,1024,1025,5000), on 54 bodies (lengths around the 1024-byte refill and the 8192-byte discard block, several newline layouts), Content-Length and five chunked layouts, four segmentations; each call's return value must equal BytesIO's and the next request must be parsed from the first byte after the body whatever was consumed.",
      "Trusted: io.BytesIO as reference semantics; programs longer than L calls and sizes outside the alphabet are outside the bound.",
      "DESIGN.md section 3, C07")
check("C12", "exploration", "explore+gparse",
      "exhaustive grid of limit configurations x boundary sizes x field shapes x segmentations (monotone-threshold oracle) plus one metered endless stream per parser waiting state x configuration x read size (bounded-buffering oracle) on the real RequestParser",
      "Every cell of the grid (7 request-line limits, 6 field-count limits, 4 field-size limits, sizes L-3..L+3, shapes plain/OWS/underscore/empty-value/trailer/after-PROXY, 3 segmentations, with and without following bytes) must show one monotone threshold inside [limit-2, limit] (field count exact) that does not depend on shape, segmentation or following bytes; every parser waiting state is fed an endless stream and must reject within the configured bound plus one read.",
      "Trusted: the effective-limit clamping rules are taken from the documentation (0 = unlimited for line and field size); four unbounded chunk/trailer states are recorded known findings.",
      "DESIGN.md section 3, C12")

check("C02", "exploration", "bench+rfc_response",
      "exhaustive product request head x application program (status x declared length x chunk sequence x delivery x failure point) x worker class x configuration, executed through the real worker handle() over a real socketpair with a pipelined second request, judged by an independent strict response reader",
      "Every cell of the product (30 request heads, ~1700 programs per head at chunk sequences <=2 (thorough <=3), 8 worker/config combinations: sync, gthread and the AsyncWorker code shared by gevent/eventlet, keep-alive on/off, sendfile on/off) is run on the real code path that writes to the socket; the bytes received are parsed by vlib/rfc_response.py and checked for exactly-one well-formed response, body == application output cut to Content-Length, consistent delimiting, and the persistence rule; failing programs must not yield a response that looks complete.",
      "Trusted: the response reader (Appendix B); well-behaved is defined narrowly (no body for HEAD/204/304, declared length <= produced bytes); gevent/eventlet hubs and TLS are not exercised.",
      "DESIGN.md section 3, C02; Appendix B")

check("C09", "exploration", "bench+rfc_response",
      "exhaustive enumeration of start_response inputs (each of 258 characters at start/middle/end of status code, reason, header name, header value; all ordered pairs of dangerous strings; hop-by-hop names in all spellings; repeated calls) through the real worker handle(), raw head compared line by line",
      "Every program of the stated finite space is executed on 4 worker configurations x HTTP/1.0 and 1.1; inputs containing CR, LF, NUL, a non-token name or non-latin-1 text must leave no byte of the application's response on the wire, all others must be refused or yield exactly the server's lines plus one line per accepted field.",
      "Trusted: the line-by-line head comparison; only CR/LF/NUL/non-token/non-latin-1 are must-refuse; more than two interacting odd characters are outside the bound.",
      "DESIGN.md section 3, C09")
check("C15", "exploration", "bench+rfc_response",
      "exhaustive enumeration of request targets (all concatenations of <=3, thorough <=4, pieces of a 26-piece alphabet) x methods x versions and of header field lists (<=2, thorough <=3 items of 72 name/value pairs) through the real worker handle(), environ compared with an independent RFC 3875 / PEP 3333 mapping",
      "Every accepted request's environ (REQUEST_METHOD, RAW_URI, SERVER_PROTOCOL, QUERY_STRING, PATH_INFO, SCRIPT_NAME, CONTENT_*, HTTP_*) is compared with a reference computed from the raw bytes, for 3 workers and SCRIPT_NAME unset//app.",
      "Trusted: the reference mapping; targets with '#', asterisk/authority/relative forms are don't-care for PATH_INFO/QUERY_STRING.",
      "DESIGN.md section 3, C15")

check("C08", "exploration", "bench+rfc_response",
      "exhaustive per-mechanism product peer x allow-lists x header_map x secure_scheme_headers x ordered header sets through the real worker handle(); PROXY line x allow-list x position on 3-request keep-alive connections of every worker; all interleavings of two concurrently served connections; judged against a reference mapping",
      "1440 gate configurations x all ordered header sets of <=2 (thorough 3) from 17 proxy-asserting / underscore / case variants; 1600 PROXY cells (5 worker+keepalive configs x 4 peers x on/off x 4 allow lists x 5 line kinds x late line); 80 two-connection schedules (all 20 merges of 3+3 requests) per async/gthread worker. Untrusted peers must see exactly the baseline environ, trusted ones the documented effect, declared addresses on every request of the connection and never on another connection.",
      "Trusted: the reference mapping written from the settings documentation; header_map=dangerous excluded as documented-unsafe; gevent/eventlet scheduling is represented by switching connections at blocking reads.",
      "DESIGN.md section 3, C08")

check("C05", "exploration", "bench+rfc_response",
      "exhaustive enumeration of truncations (every offset) x client endings (half-close, close, reset, reset between read and reply), single-byte mutations (14-byte alphabet at every offset) and the C01 must-reject corpus through the real handle() of 5 worker configurations, TCP and unix peers; follow-up plain request on the same worker object",
      "Every hostile stream of the stated finite spaces is served by the real per-connection code (except ladders, handle_error, write_error, finally-close); the application call counter is compared with the strict reference reader's count of acceptable requests, the reply bytes with the strict response reader (at most one error reply, Connection: close, exact Content-Length, nothing after it), the server end must be closed and unused afterwards, nothing may escape handle(), the worker must stay alive and serve a plain request every 20 connections.",
      "Trusted: vlib/rfc_request.py and vlib/rfc_response.py; fault injection is limited to the four client endings; inputs needing two or more mutations are outside the bound (thorough adds reset-after-read on all mutations).",
      "DESIGN.md section 3, C05")

check("C19", "exploration", "bench+rfc_response",
      "exhaustive products through the real worker handle() with the real Logger: (request head x non-failing application program x worker config) for record count and truthfulness, (hostile string x client-controlled place x access-log atom bare/quoted x worker) for line integrity, (C01 reject corpus alone / after a valid request) for rejected requests",
      "92k truth cells: exactly one record per completed application call, its status and byte atoms equal to what the strict response reader decoded from the wire (all write paths incl. sendfile, HEAD, 204, Content-Length cut, iterables whose close() raises), request line attributable one-to-one and in order; 13.8k hostile cells (12 hostile strings in raw/percent-encoded target, Referer, User-Agent, X-*, basic-auth user, method; 55 formats): no CR/LF in any record, quoted atoms stay closed; 8.4k rejected-stream cells: at most one record per rejected request and only for request lines actually sent.",
      "Trusted: the Capture logging handler sees what a file handler would write; only CR and LF count as line breaks; applications that raise are not judged.",
      "DESIGN.md section 3, C19")

check("C16", "exploration", "config-loads",
      "exhaustive enumeration, for each of the 93 settings, of every non-empty subset of mentioning sources x every assignment of two distinct valid values, per-source invalid values, config-file selection, and reload histories, each executed as a real WSGIApplication configuration load; oracle = fold by authority over validator-normalised values",
      "About 5500 real loads: cli > GUNICORN_CMD_ARGS > config file > framework defaults (init() dict) > built-in default must hold for every setting and every combination of mentioning sources (value tables per validator incl. falsy values, append lists, paths, users, callables, dicts), every other setting must keep its default, every invalid value must stop startup, the configuration file is chosen cli -c over env -c over ./gunicorn.conf.py, and a reload after the sources changed must equal a fresh load.",
      "Trusted: the per-validator value tables; --paste on the command line needs paste.deploy (not installed) and is exercised through the other sources only; check_config/print_config are inert at load time.",
      "DESIGN.md section 3, C16")

check("C17", "model_checking", "simfs",
      "explicit-state breadth-first search over operation sequences (depth <=5, thorough 6) of three instances on two paths executing the real Pidfile class on an in-memory file system, a crash injected before every system call of every create/rename; conformance replay of the two-instance histories on a real directory with real helper processes",
      "Reachable states (file contents x per-instance belief x live set) are enumerated completely up to the depth bound; on every transition the ownership/atomicity invariants are evaluated (create refuses iff another live process is named, exact content, crash at any syscall leaves the path absent/unchanged/complete, unlink/rename only touch files naming the caller, nothing naming another live process is destroyed, validate is exact and read-only). The arbiter's own call sites (start/halt/reload/promotion) run the real Pidfile on the same simulated FS inside the C04/C10 arbiter explorations.",
      "Trusted: vlib/simfs.py (validated by the conformance replay: exceptions, validate results and file contents must agree with the real kernel on every replayed history); whole operations are atomic steps; process death, not power loss.",
      "DESIGN.md section 3, C17")
check("C03", "model_checking", "simkernel",
      "explicit-state search over the real Arbiter.run() inside a simulated kernel (fork/kill/waitpid/select/time/signals owned by the harness): states = canonical master state at quiescence, transitions = environment events (worker exit statuses, TTIN, TTOU, HUP, tick, simultaneous pairs), plus every mid-flight event at every delivery point of each transition (deviation bound 1); pool invariants evaluated after a settling period",
      "For 9 (thorough 20) configurations of workers/timeout/worker reaction (incl. a non-worker child of the master and a wrapped pid counter) all histories up to depth 3 (thorough 4) are explored with canonical-state deduplication, and every transition is re-run with each of 6 asynchronous events injected at every signal-delivery point (facade call entries/returns, WORKERS accesses, the clock reads of the timeout scan) - about 160k complete runs of the real main loop in the quick tier. 12 (thorough 40) explored histories are replayed on a real master with real workers and must show the same number of live workers. Invariants: no zombie / untracked child / dead tracked worker, active workers == reference target, num_workers == fold of TTIN/TTOU/HUP with signal coalescing, oldest-first retirement, boot-error status halts with that status, nothing but SystemExit leaves run().",
      "Trusted: vlib/simkernel.py (process table, signal delivery at facade calls, virtual time), validated by the replay on real masters; workers are modelled processes; delivery points are call boundaries and shared-dict accesses, not arbitrary bytecodes; two known findings (fork/SIGCHLD bookkeeping race) are listed in known_findings.json.",
      "DESIGN.md section 3, C03; Appendix C")

check("C04", "exploration", "simkernel+realproc",
      "exhaustive enumeration of shutdown scenarios: (a) real Arbiter.run() in the simulated kernel: pool history x stop signal(s) x worker reaction x bind, plus every mid-flight event at every delivery point of the shutdown; (c) real gunicorn processes: worker class x signal x connection phase (held by a gate) x application behaviour x bind",
      "(a) 432 stop transitions and ~9k runs with mid-flight injections judge exit status 0, exit no later than graceful_timeout in virtual time, no early SIGKILL, right signals, nothing alive, listeners closed, unix path unlinked, pid file removed (real Pidfile on the simulated FS). (c) 46 (thorough ~450) real runs hold a connection in each phase of its life while TERM/INT/QUIT is sent: the held request must be answered in full when the application finishes within the graceful timeout (also when it finishes only after the worker began draining, and with two listeners), the master must exit 0 in time, no process of its session may survive, connect must be refused, pid file and unix socket file must be gone.",
      "Trusted: vlib/simkernel.py; wall-clock upper bounds (graceful_timeout + 3 s) and a 2 s settle window in the real runs; a real-process anomaly counts only if it reproduces serially; kernel scheduling inside a phase and TLS are outside the bound.",
      "DESIGN.md section 3, C04")
check("C10", "exploration", "simkernel+realproc",
      "exhaustive enumeration of reload scenarios: (a) real Arbiter in the simulated kernel: HUP histories x worker counts x old-worker reaction (incl. TERM lost in the boot window) x bind spelling, plus every mid-flight event at every delivery point from the first HUP on; (c) real processes: worker class x scenario (idle, request in the application, response half written, head half received, two HUPs, changed / removed worker count) x bind under a background connector",
      "(a) 162 histories / ~3.4k runs: no listener is closed and create_sockets is not called again with an unchanged address (also when the bind is spelled with a host name), TERM reaches old workers only after the new generation was forked, after settling tracked == live == the newly configured number and nobody from before the last HUP is alive, the pid file keeps naming the master. (c) 28 (thorough 84) real runs: the gated request is completed by the worker that took it, a connector opening a connection every 5 ms is never refused, afterwards only new pids carrying the new configuration marker answer, in the new number.",
      "Trusted: vlib/simkernel.py; 'not refused at any moment' is sampled every 5 ms in the real runs, the exhaustive argument is the simulated master never closing a listener; one known finding (TERM lost in the boot window followed by TTIN) is listed.",
      "DESIGN.md section 3, C10")

check("C20", "exploration", "simkernel+realproc",
      "exhaustive enumeration on the real kernel as root: (a) every (user spelling, group spelling, initgroups) cell executes the real set_owner_process in a forked child; (c) every (identity configuration, worker class, history of start / worker killed / HUP / HUP that introduces the identity / USR2) cell on real servers, observed through /proc and from inside the application",
      "60 credential cells: (r,e,s)uid and (r,e,s)gid must equal the configured ids, supplementary groups the user's groups with initgroups. 50 (thorough 100) server cells: every worker of every generation must carry exactly the configured ids in /proc/<pid>/status, the application must have been imported and must handle requests with those ids, the master must stay root, the unix socket must be owned by the configured ids, and the heartbeat must keep working (no WORKER TIMEOUT, stable pids).",
      "Trusted: the sandbox runs as root with users www-data/nobody and groups nogroup/daemon present; without initgroups supplementary groups are not judged; preload_app is outside the property; real-process anomalies count only if they reproduce serially.",
      "DESIGN.md section 3, C20")

check("C14", "exploration", "simkernel+realproc",
      "exhaustive enumeration of upgrade/rollback histories: (a) real Arbiter in the simulated kernel, one master at a time against every environment answer of the other side (old master: all histories with a USR2 over 12 events to depth 3/4; new master started with the inherited GUNICORN_PID/GUNICORN_FD and the parent's pid file: all histories over 9 events), short histories with mid-flight events at every delivery point, plus the real re-exec child branch up to execvpe; (b) all valid histories of length <=3/4 over {USR2 old, TERM/QUIT new, TERM/QUIT old, HUP old, USR2 new} on real masters, TCP and unix binds, under a background client",
      "(a) ~4900 histories / ~13k runs: a second USR2 while an upgrade is pending never forks another master, the old master tracks the new one and notices its exit (also with zero workers after WINCH in daemon mode and after a HUP), nobody closes a listener while running, a master that stops while the other lives does not unlink the unix socket path and a sole master does, the new master adopts exactly the inherited fds, writes <pidfile>.2, leaves the parent's pid file alone, ignores USR2 while the parent lives, promotes itself and moves its pid to the configured name once the parent is gone (orderly exit or kill), the exec environment carries GUNICORN_PID and GUNICORN_FD. (b) 51 (thorough ~230) real runs check the same end states on real masters and that a client connecting every 10 ms is never refused while a master lives.",
      "Trusted: vlib/simkernel.py; the two masters are not interleaved by an explorer (level therefore 'exploration', as announced in DESIGN.md's fallback), their concurrent execution is covered by the real histories; two known findings (new master dying inside the fork/bookkeeping window of reexec) are listed.",
      "DESIGN.md section 3, C14")

check("C11", "model_checking", "simkernel+realproc",
      "two-level assume/guarantee model checking in exact virtual time: (1) the real worker main loops (sync one/many listeners, gthread, gevent, eventlet) executed under a virtual clock for every healthy activity pattern, measuring the maximum heartbeat gap; (2) the real Arbiter in the simulated kernel against heartbeat sources with those gaps at every phase of a 50 ms grid, hung workers of three kinds, and timeout-changing reloads; (3) real processes per worker class (idle / blocked application / stopped process)",
      "(1) 120 loop executions over timeouts {1,2,3,5,30}: idle, single, spaced and back-to-back requests of duration 0, timeout/2, timeout-0.1 - guarantee G <= timeout. (2) 307 (thorough ~600) master cells: no ABRT/KILL ever for a heartbeat source with the measured gap at any phase; a worker hung from T0 (blocked, stopped, ignoring ABRT) gets ABRT within [timeout, timeout+2 s], KILL one scan later when it ignores ABRT, is reaped and replaced while the others are untouched; after a HUP that changes the timeout nobody is killed. (3) 12 real cells confirm on the four real classes.",
      "Trusted: virtual-time cost model (a blocking call costs its timeout, a loop iteration 1 ms), 50 ms phase grid, vlib/simkernel.py; gevent/eventlet loops run with a stubbed hub (sleep only).",
      "DESIGN.md section 3, C11")

check("C13", "model_checking", "gsched",
      "explicit-state model checking of the real ThreadWorker under a controlled scheduler: breadth-first search over environment histories delivered at quiescence (connect, stolen accept, keep-alive / close / gated / half request, rest, client close, gate release, tick, simultaneous pairs) with canonical-state deduplication, and inside every transition all schedules of main loop and pool threads with a bounded number of deviations at the scheduling points; invariants at every quiescent state, bounded liveness by a drain continuation from every state",
      "8 (thorough 15) configurations of threads / worker_connections / keepalive / clients; quick: ~8.8k distinct states, ~40k transitions, ~360k complete executions of the real run()/accept()/handle()/finish_request()/murder_keepalived() code with selector, sockets, executor, futures, lock and clock substituted. Checked: nr_conns equals the open accepted connections and never exceeds the limit, every open connection is in exactly one of poller / job, _keep members are registered, idle connections are closed by the first reaper pass after their deadline and not before, no close while a request is handled, no use after close / double register; from every state: complete requests are dispatched while a thread is free, everything is closed and nr_conns == 0 once clients left, run() returns after TERM.",
      "Trusted: vlib/gsched.py and vlib/gtbench.py (simulated selector/sockets/executor); scheduling points are operations on shared objects, the code between two points is atomic (so `nr_conns += 1` is one step, as on the CPython 3.12 interpreter here - on 3.7-3.9 interpreters it is not); deviation bound 1 (thorough 2); a busy main loop is modelled as time passing; two known defects (never polling at capacity; pipelined requests never dispatched) with five fingerprints are listed.",
      "DESIGN.md section 3, C13; Appendix D")

check("C18", "exploration", "gsched",
      "exhaustive enumeration in four parts: (a) counting rule in-process: worker x max_requests 0..3 x jitter setting x jitter answer x connection mode through the real handle(); two interleaved keep-alive connections on one worker; (b) explicit-state search of the real ThreadWorker under the controlled scheduler with the limit switched on (histories x schedules); (c) real servers: class x max x jitter x load x bind",
      "(a) 240 cells: alive turns false exactly at request number max_requests + jitter answer, every request up to then answered in full and the limit response announces close, no recycling with 0; after the limit another keep-alive connection gets at most its next request, closing. (b) ~970 states / ~22k executions: nothing is dispatched beyond the limit plus in-flight, no accepted connection is abandoned when the loop exits. (c) 20 (thorough ~100) real runs: per-pid served counts within max + jitter (+ one in flight per client for concurrent classes), zero client errors, pids change, constant pid set with 0.",
      "Trusted: vlib/bench.py, vlib/gtbench.py, wall-clock bounds in the real runs; four known findings (gthread abandons a just-accepted connection at recycle - seen in simulation and on real servers; gevent/eventlet keep accepting for up to a second after the limit) are listed.",
      "DESIGN.md section 3, C18")

# coverage added after the third and fourth wave of seeded defects (DESIGN.md section 0)
ADDENDA = {
    "C01": " Seed streams are additionally cut at every offset (1 cut; thorough 2) and read with 9 read()/readline() programs, always judged by the same whole-stream reference. A PROXY line anywhere after the first request must be refused; bodies left unread by the application (5 methods x 3 framings); every truncation of the body-carrying seeds (a cut-off chunked body must not read as complete).",
    "C02": " Real sync/gthread/gevent/eventlet servers additionally run 8 connection scripts (request sequences ending in file_wrapper / multi-megabyte responses with a slow reader, responses slower than the keep-alive time, HTTP/1.0 keep-alive), read back by the same strict reader. Further real scripts: TCP client with a 4 KB receive buffer and odd read sizes, a client idling past the keep-alive time, file_wrapper over a pipe. Delivery write()+file_wrapper in the program product.",
    "C03": " The simulated heartbeat file delegates its open/closed life cycle to the real WorkerTmp. Real boot-failure cells (raising post_fork / post_worker_init hook, failing application import, with and without preload) on three worker classes. Simulated heartbeats are up to 0.4 s old; with timeout=0 any SIGABRT is a violation.",
    "C04": " Reload histories that change graceful_timeout (the arbiter's own configuration in force is the bound) and real cells with workers older than graceful_timeout are included. Real cells with a raising worker_exit hook in a sibling worker and with an application that starts a helper process at import. Stop signals delivered together with the old master's exit; master pids of 1 and 7 digits.",
    "C05": " Also: IPv6 peers (4-tuples), a client that stays connected and silent (the async keep-alive timer fires), and clients that never read a multi-megabyte echoed error reply (limit_request_line=0). Also format characters in echoed text, ECONNABORTED / EAGAIN from accept() in the real ThreadWorker.run loop, and a raising pre_request hook. An application that answers before reading a malformed body (one status line per call); real TLS listeners against clients that are not TLS clients.",
    "C08": " Also: a PROXY line combined with proxy-asserting headers x forwarded_allow_ips naming the declared address / the peer; field names with other token characters; the cells re-run in fresh interpreters with FORWARDED_ALLOW_IPS set in the environment. FORWARDED_ALLOW_IPS defined but empty.",
    "C09": " Also: late start_response(.., exc_info) after a zero-byte write / yield with a payload that would read as a second response. Also applications raising 7 kinds of exception after the head was sent. Zero Content-Length spellings with an empty body; statuses passed together with exc_info.",
    "C10": " Also: a raw_env variable set, changed by a first reload and dropped by a second one. Also a raw_env variable the master itself dropped, and the application named by wsgi_app changing across the reload. The same bind address respelled by the reloaded configuration.",
    "C11": " The worker's wait bound is taken from the real Arbiter.setup()/spawn_worker(); clients pending on several listeners at once; a master woken every 0.3-0.9 s (USR1, crash-looping sibling, TTIN/TTOU) while a worker hangs; gaps are measured from worker creation. The wall clock is a separate, steppable clock in the simulated kernel (clock-step cells); the heartbeat round trip is checked against both clocks.",
    "C12": " 'What follows' includes 8.7 KB of pipelined requests arriving in the same read as the head under test. Segmentation 'every CRLF cut in two'; folded fields under permit_obsolete_folding count once.",
    "C14": " Also: three listeners (tcp, tcp, unix) handed over through upgrade / rollback / chained upgrade, and the exec environment must carry everything the old master was started with. The old master's pool size is followed through WINCH / HUP. Events combining the parent's exit with TERM / USR2 / QUIT in one instant.",
    "C15": " A forwarder header (PATH_INFO) is one of the field items, in every order with the underscore-named items. The Expect field is a field item like the others.",
    "C16": " Also: wrong-typed values per validator, case / underscore variants of every setting name as plain file variables, wsgi_app named by the file, six spellings of -c (absolute, relative, file: prefix) x four directory names, reloads after the configuration moved the working directory. Hook settings are called with every accepted arity and must receive the documented arguments; None from the file over a framework default. GUNICORN_CMD_ARGS given verbatim (# ; $ quotes inside words); relative --chdir against a file that sets chdir.",
    "C17": " Foreign file contents include pids that are prefixes of one another (1, 11, 110); the arbiter's halt call site is judged too (the pid file may only go when no worker is left). os.open / path normalisation in the simulated file system, reload to alias spellings of the pid file, a real recycling cell with a raising worker_exit hook. Undecodable file contents, bare relative names with /tmp on another file system (EXDEV, shutil.move), subreaper promotion.",
    "C19": " Includes a delivery where a late start_response(.., exc_info) is refused after the first write. Clients that vanish before / while the response is written; every way of switching access logging on or off, with and without statsd. Credentials that are not base64; delivery write()+file_wrapper.",
    "C20": " The credential grid is crossed with the identity the master starts with (root/0, configured gid preset, effective gid preset, own supplementary groups) and records the arguments of os.initgroups; a USR2 history with the identity configured through GUNICORN_CMD_ARGS is included. Real cells with CAP_SETUID/CAP_SETGID dropped; expected ids come from the account database; accounts with uid != gid. Group ids above 2**31; a unix socket created by a reload.",
    "C06": " The kind of rejection is part of the observation; unterminated over-limit lines; a worker-level part cuts pipelined streams at every offset through the real keep-alive loops.",
    "C07": " A worker-level part (application consuming none / some / all of a body whose rest arrives later) and truncated chunked bodies for every read program. Bodies with a bare CR; 2.2 MB bodies left unread; GET / HEAD bodies; interleaved connections cut inside a chunk-size line.",
    "C13": " Reaper closes are compared with the deadline stamped when the connection was handed back to the poller (a request longer than the keep-alive time is in the configuration list); accept() may fail with ECONNABORTED. With worker_connections == threads no connection may be parked idle.",
    "C18": " Real loads with a raising worker_exit hook, an application error on the limit-reaching request, and a slow request on a second listener. A connection accepted two main-loop rounds after the limit was reached is a violation.",
}
for pid, extra in ADDENDA.items():
    CHECKS[pid]["text"] += extra

ALL = ["C%02d" % i for i in range(1, 21)]
for pid in ALL:
    if pid not in CHECKS:
        NA[pid] = "check not built yet in this revision (planned, see DESIGN.md section 3)"

m = {
    "version": 1,
    "setup_cmd": "./check --selftest",
    "hooks": {
        "guard": "GUNICORN_VERIF",
        "enable": "no source hooks: every seam is reached by replacing module-level names / instance attributes from the harness; checks import gunicorn from /repo's working tree through /venv's editable install",
        "baseline_off_cmd": BASE,
        "source_commits": [],
        "add_only": True,
    },
    "engines": [
        {"name": "bench+rfc_response", "path": "vlib/bench.py", "serves_properties": ["C02", "C05", "C08", "C09", "C15", "C19"],
         "kind_free_text": "real SyncWorker/ThreadWorker/AsyncWorker.handle() in-process over real sockets, deterministic scripted client; exhaustive product enumeration"},
        {"name": "config-loads", "path": "props/c16.py", "serves_properties": ["C16"],
         "kind_free_text": "real configuration loads in child processes with controlled argv / environment / cwd / config file"},
        {"name": "simkernel", "path": "vlib/simkernel.py", "serves_properties": ["C03", "C04", "C10", "C11", "C14"],
         "kind_free_text": "real Arbiter.run() driven inside a deterministic simulated kernel; explicit-state search over quiescent states + mid-flight event injection at every delivery point"},
        {"name": "simkernel+realproc", "path": "vlib/realproc.py", "serves_properties": ["C04", "C10", "C11", "C14", "C18", "C20"],
         "kind_free_text": "real gunicorn masters/workers started from the working tree, connections held in chosen phases by gates; finite scenario products walked completely"},
        {"name": "gsched", "path": "vlib/gsched.py", "serves_properties": ["C13", "C18"],
         "kind_free_text": "greenlet-based controlled scheduler (deviation-bounded, replayable) + simulated selector/sockets/executor around the real ThreadWorker"},
        {"name": "simfs", "path": "vlib/simfs.py", "serves_properties": ["C17"],
         "kind_free_text": "real Pidfile class on an in-memory file system with a syscall log and crash injection; conformance replay on a real directory"},
        {"name": "explore+gparse", "path": "vlib/gparse.py", "serves_properties": ["C01", "C06", "C07", "C12"],
         "kind_free_text": "bounded-exhaustive input/segmentation/program enumeration on the real RequestParser"},
    ],
    "checks": [],
    "not_applicable": [{"property_id": k, "reason": v} for k, v in sorted(NA.items())],
    "notes": "All checks: ./check <ID> --tier quick|thorough; exit 0/1/2 as in DESIGN.md section 5; known_findings.json lists recorded and repaired defects.",
}
for pid in sorted(CHECKS):
    c = CHECKS[pid]
    m["checks"].append({
        "property_id": pid,
        "quick_cmd": "./check %s --tier quick" % pid,
        "thorough_cmd": "./check %s --tier thorough" % pid,
        "evidence_file": "/verif/evidence/%s.json" % pid,
        "replay_cmd_template": "./check %s --replay {path}" % pid,
        "engine": c["engine"],
        "level_claimed": {"category": c["cat"], "text": c["text"], "design_ref": c["ref"]},
        "level_note": c["note"],
        "technique": c["technique"],
    })
json.dump(m, open(os.path.join(ROOT, "MANIFEST.json"), "w"), indent=1)
print("MANIFEST.json: %d checks, %d not_applicable" % (len(m["checks"]), len(m["not_applicable"])))
