#!/venv/bin/python
"""Run checks against seeded defects: apply /verif/seeded/<id>/patch.diff to /repo, run the checks,
undo (git checkout), record which checks reported a VIOLATION in meta.json.
usage: seedrun.py [--tier quick|thorough] [--checks C01,C06] <seed-id|prefix> ..."""
import argparse
import glob
import json
import os
import subprocess
import sys
import time

SEEDED = "/verif/seeded"


def main():
    ap = argparse.ArgumentParser()
    ap.add_argument("ids", nargs="*")
    ap.add_argument("--tier", default="quick")
    ap.add_argument("--checks", default="")
    a = ap.parse_args()
    st = subprocess.run("git -C /repo status --porcelain --untracked-files=no", shell=True, capture_output=True, text=True).stdout
    if st.strip():
        sys.exit("refusing: /repo has uncommitted changes:\n" + st)
    dirs = sorted(d for d in glob.glob(SEEDED + "/*") if os.path.exists(d + "/patch.diff"))
    if a.ids:
        dirs = [d for d in dirs if any(os.path.basename(d).startswith(i) for i in a.ids)]
    for d in dirs:
        sid = os.path.basename(d)
        meta = json.load(open(d + "/meta.json"))
        checks = a.checks.split(",") if a.checks else [meta["breaks_property"]]
        alt = d + "/patch.rebased.diff"      # hand-rebased onto the fix: commits where the original no longer applies
        pf = alt if os.path.exists(alt) else d + "/patch.diff"
        ap_ = subprocess.run("git -C /repo apply %s" % pf, shell=True, capture_output=True, text=True)
        if ap_.returncode != 0:
            ap_ = subprocess.run("git -C /repo apply -C1 --recount %s" % pf, shell=True, capture_output=True, text=True)
            if ap_.returncode != 0:
                subprocess.run("git -C /repo reset -q --hard HEAD", shell=True)
                print("%s: PATCH DOES NOT APPLY" % sid)
                continue
        try:
            for c in checks:
                if not os.path.exists("/verif/props/%s.py" % c.lower()):
                    print("%s: check %s not built" % (sid, c))
                    continue
                t0 = time.time()
                p = subprocess.run(["./check", c, "--tier", a.tier], cwd="/verif", capture_output=True, text=True)
                vl = [l for l in p.stdout.splitlines() if l.startswith("VIOLATION") or l.startswith("  fingerprint")]
                det = p.returncode == 1 and any(l.startswith("VIOLATION") for l in vl)
                print("%s: %s %s rc=%d %.0fs %s" % (sid, c, "DETECTED" if det else "missed", p.returncode, time.time() - t0,
                                                   (vl[1].strip()[:150] if len(vl) > 1 else "")))
                if p.returncode == 2:
                    print(p.stdout[-600:], p.stderr[-600:])
                db = meta.get("detected_by") or {}
                db["%s/%s" % (c, a.tier)] = {"detected": det, "fingerprints": [l.split()[0].split("=", 1)[1] for l in vl if l.startswith("  fingerprint")][:5]}
                meta["detected_by"] = db
        finally:
            subprocess.run("git -C /repo reset -q --hard HEAD", shell=True)
        json.dump(meta, open(d + "/meta.json", "w"), indent=1)
    # evidence files were rewritten by mutated runs: restore them from git
    subprocess.run("git -C /verif checkout -- evidence 2>/dev/null", shell=True)


if __name__ == "__main__":
    main()
