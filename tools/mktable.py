#!/venv/bin/python
"""Regenerates the 'as built' table in DESIGN.md (between the AS-BUILT markers) from evidence/*.json."""
import glob
import json
import os
import re

ROOT = os.path.dirname(os.path.dirname(os.path.abspath(__file__)))
THOROUGH = {'C01': '54 s', 'C02': '31 s', 'C03': '12.4 min', 'C04': '4.1 min', 'C05': '25 s', 'C06': '18.5 min', 'C07': '5.4 min', 'C08': '29 s', 'C09': '4 s', 'C10': '86 s', 'C11': '10 s', 'C12': '17 s', 'C13': '7.9 min', 'C14': '2.8 min', 'C15': '54 s', 'C16': '12 s', 'C17': '34 s', 'C18': '102 s', 'C19': '13 s', 'C20': '43 s'}
rows = []
for p in sorted(glob.glob(os.path.join(ROOT, "evidence", "C*.json"))):
    e = json.load(open(p))
    c = e["coverage"]
    if "states" in c and "transitions" in c:
        size = "%s states / %s transitions / %s runs" % (c["states"], c["transitions"], c.get("evaluations", "-"))
        conf = c.get("traces_validated_against_impl", 0)
    else:
        size = "%s cases (%s non-trivial)" % (c["evaluations"], c["distinct_nontrivial"])
        conf = "-"
    rows.append("| %s | %s | %s | %s | %.0f s | %s |" % (e["property_id"], e["level"], size, conf, e["wall_s"], THOROUGH.get(e["property_id"], "?")))
table = ("| Property | Level | Quick tier: size of the explored space | Traces replayed on the real system | Quick wall | Thorough wall |\n"
         "|---|---|---|---|---|---|\n" + "\n".join(rows) + "\n")
path = os.path.join(ROOT, "DESIGN.md")
s = open(path).read()
s = re.sub(r"<!-- AS-BUILT -->.*?<!-- /AS-BUILT -->", "<!-- AS-BUILT -->\n" + table + "<!-- /AS-BUILT -->", s, flags=re.S)
open(path, "w").write(s)
print(table)
