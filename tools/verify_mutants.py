#!/venv/bin/python
"""Confirm sub-agent mutants independently and import them into /verif/seeded/.
usage: verify_mutants.py C02 [C15 ...]   (reads /tmp/wt-<ID>/mutants/m*/)
For each mutant, in the agent's scratch worktree: patch applies, 260 tests pass with it, demo fails
with it, demo passes without it.  Only then is it copied to /verif/seeded/<ID>-m<i>/ with meta.json."""
import json
import os
import re
import shutil
import subprocess
import sys
from concurrent.futures import ThreadPoolExecutor

PY = "/venv/bin/python"


def sh(cmd, cwd, timeout=600, env=None):
    e = dict(os.environ)
    e["PYTHONPATH"] = cwd
    e["PYTHONDONTWRITEBYTECODE"] = "1"
    if env:
        e.update(env)
    try:
        p = subprocess.run(cmd, cwd=cwd, shell=True, capture_output=True, text=True, timeout=timeout, env=e)
        return p.returncode, (p.stdout + p.stderr)[-3000:]
    except subprocess.TimeoutExpired:
        return 124, "timeout"


ROOT = "/tmp/wt-"
TAG = ""
BASE = "2bff8af"


def verify(pid):
    wt = ROOT + pid
    out = []
    mdir = os.path.join(wt, "mutants")
    if not os.path.isdir(mdir):
        return [(pid, None, "no mutants dir")]
    for m in sorted(os.listdir(mdir)):
        d = os.path.join(mdir, m)
        patch = os.path.join(d, "patch.diff")
        demo = os.path.join(d, "demo.py")
        if not (os.path.exists(patch) and os.path.exists(demo)):
            out.append((pid, m, "incomplete"))
            continue
        sh("git checkout -- . && git clean -fdq -e mutants -e PROPERTY.txt", wt)
        rc, o = sh("git apply --check %s" % patch, wt)
        if rc != 0:
            out.append((pid, m, "patch does not apply: " + o[-200:]))
            continue
        rc0, o0 = sh("%s %s" % (PY, demo), wt, 300)
        sh("git apply %s" % patch, wt)
        rct, ot = sh("%s -m pytest -q -p no:cacheprovider -x 2>&1 | tail -3" % PY, wt, 900)
        passed = re.search(r"(\d+) passed", ot)
        failed = re.search(r"(\d+) (failed|error)", ot)
        rc1, o1 = sh("%s %s" % (PY, demo), wt, 300)
        sh("git checkout -- . && git clean -fdq -e mutants -e PROPERTY.txt", wt)
        ok = rc0 == 0 and rc1 != 0 and passed and int(passed.group(1)) == 260 and not failed
        status = "ok" if ok else "REJECTED demo_clean=%s demo_patched=%s tests=%s" % (rc0, rc1, ot.strip()[-80:])
        if ok:
            dst = "/verif/seeded/%s-%s%s" % (pid, TAG, m)
            os.makedirs(dst, exist_ok=True)
            for f in ("patch.diff", "demo.py", "README.md"):
                if os.path.exists(os.path.join(d, f)):
                    shutil.copy(os.path.join(d, f), dst)
            readme = open(os.path.join(d, "README.md")).read() if os.path.exists(os.path.join(d, "README.md")) else ""
            meta = {
                "id": "%s-%s%s" % (pid, TAG, m), "breaks_property": pid,
                "origin": "independent sub-agent given only the property text and a scratch worktree",
                "needs_to_manifest": (readme.split("\n\n")[1] if "\n\n" in readme else readme)[:600],
                "confirmed": {"base_commit": BASE, "tests_with_patch": "260 passed",
                              "demo_on_clean_tree_exit": rc0, "demo_with_patch_exit": rc1,
                              "demo_with_patch_tail": o1[-400:]},
                "detected_by": None,
            }
            mp = os.path.join(dst, "meta.json")
            if os.path.exists(mp):
                old = json.load(open(mp))
                meta["detected_by"] = old.get("detected_by")
                meta["needs_to_manifest"] = old.get("needs_to_manifest", meta["needs_to_manifest"])
            json.dump(meta, open(mp, "w"), indent=1)
        out.append((pid, m, status))
    return out


if __name__ == "__main__":
    ids = sys.argv[1:]
    if ids and ids[0] in ("--wave2", "--wave3", "--wave4", "--wave5", "--wave6", "--wave7"):
        n = ids[0][-1]
        ROOT, TAG = "/tmp/w%s-" % n, "w%s" % n
        BASE = subprocess.run("git -C /repo rev-parse --short HEAD", shell=True, capture_output=True, text=True).stdout.strip()
        ids = ids[1:]
    with ThreadPoolExecutor(8) as ex:
        for res in ex.map(verify, ids):
            for r in res:
                print(*r)
