"""Strict RFC 9112 / 9110 reader of a connection's request byte stream.  Independent reference model:
imports nothing from gunicorn.  Three-valued per construct (DESIGN.md Appendix A):

  R  = MUST-REJECT (a class the property lists),
  F  = framed: exactly one reading (body bytes, end offset),
  D  = don't-care: the server may reject; if it accepts, the given reading applies.

Lines end with CRLF only; OWS is SP / HTAB only; token is RFC 9110 tchar+.
"""
import re

TOKEN = re.compile(rb"[!#$%&'*+\-.^_`|~0-9A-Za-z]+")
REQLINE = re.compile(rb"([!#$%&'*+\-.^_`|~0-9A-Za-z]+) ([^ ]+) HTTP/([0-9])\.([0-9])")
DIGITS = re.compile(rb"[0-9]+")
HEXDIGITS = re.compile(rb"[0-9A-Fa-f]+")
OWS = b" \t"
KNOWN_CODINGS = {b"chunked", b"gzip", b"deflate", b"compress", b"identity", b"x-gzip", b"x-compress"}


class Msg:
    """One message as the oracle reads it."""
    __slots__ = ("verdict", "reason", "method", "target", "version", "fields", "body", "trailers",
                 "end", "body_status", "body_reason", "no_further", "start")

    def __init__(self):
        self.verdict = None        # "F" | "D" | "R" | "INCOMPLETE" | "NOREAD"
        self.reason = None         # class of R / D
        self.method = self.target = self.version = None
        self.fields = []
        self.body = b""            # well-formed body prefix
        self.trailers = []
        self.end = None            # offset just after the message (None unless body_status == "ok")
        self.body_status = None    # "ok" | "reject" | "incomplete"
        self.body_reason = None
        self.no_further = False    # the connection must not yield another request after this one
        self.start = None

    def as_dict(self):
        return {k: getattr(self, k) for k in self.__slots__}


def parse_field_lines(block):
    """block: bytes between the start line and the blank line (no trailing CRLF).
    Returns (fields, None) or (None, reject_class)."""
    fields = []
    if block == b"":
        return fields, None
    for line in block.split(b"\r\n"):
        if line[:1] in (b" ", b"\t"):
            return None, "obs-fold"
        colon = line.find(b":")
        if colon < 0:
            return None, "field-without-colon"
        name = line[:colon]
        if name == b"":
            return None, "empty-field-name"
        if not TOKEN.fullmatch(name):
            if name.rstrip(OWS) != name and TOKEN.fullmatch(name.rstrip(OWS)):
                return None, "whitespace-before-colon"
            return None, "non-token-field-name"
        value = line[colon + 1:].strip(OWS)
        if b"\x00" in value or b"\r" in value or b"\n" in value:
            return None, "nul-cr-lf-in-value"
        fields.append((name, value))
    return fields, None


def framing(fields, version):
    """Returns (mode, arg, verdict, reason, no_further); mode in {"none", "length", "chunked"}."""
    cls = [v for n, v in fields if n.lower() == b"content-length"]
    tes = [v for n, v in fields if n.lower() == b"transfer-encoding"]
    verdict = "F"
    reason = None
    cl = None
    if len(cls) > 1:
        return None, None, "R", "repeated-content-length", False
    if cls:
        if not DIGITS.fullmatch(cls[0]):
            return None, None, "R", "content-length-not-digits", False
        cl = int(cls[0])
    if not tes:
        if cl is None:
            return "none", 0, "F", None, False
        return "length", cl, "F", None, False
    elements = b",".join(tes).split(b",")
    codings = []
    for el in elements:
        el = el.strip(OWS)
        if el == b"":
            verdict, reason = "D", "empty-te-element"
            continue
        base = el.split(b";", 1)[0].strip(OWS)
        if b";" in el:
            verdict, reason = "D", "te-parameter"
        if not TOKEN.fullmatch(base):
            return None, None, "R", "te-element-not-token", False
        low = base.lower()
        if low not in KNOWN_CODINGS:
            return None, None, "R", "te-unknown-coding", False
        if low in (b"x-gzip", b"x-compress"):
            verdict, reason = "D", "te-x-alias"
        codings.append(low)
    nchunked = codings.count(b"chunked")
    if nchunked > 1:
        return None, None, "R", "chunked-repeated", False
    if nchunked == 1 and codings[-1] != b"chunked":
        return None, None, "R", "chunked-not-last", False
    if nchunked == 1:
        if version < (1, 1):
            return None, None, "R", "chunked-on-http-1.0", False
        if cls:
            return None, None, "R", "content-length-with-chunked", False
        return "chunked", None, verdict, reason, False
    # a Transfer-Encoding without chunked: only don't-care readings remain
    no_further = any(c != b"identity" for c in codings)
    if not codings:
        return ("length", cl, "D", "te-empty", False) if cl is not None else ("none", 0, "D", "te-empty", False)
    why = "te-without-chunked"
    if cl is not None:
        return "length", cl, "D", why, no_further
    return "none", 0, "D", why, no_further


def read_chunked(data, pos):
    """Returns (status, reason, body, trailers, end)."""
    body = []
    n = len(data)
    while True:
        eol = data.find(b"\r\n", pos)
        if eol < 0:
            return "incomplete", "chunk-size-line", b"".join(body), [], None
        line = data[pos:eol]
        if b";" in line:
            size = line.split(b";", 1)[0].rstrip(OWS)
        else:
            size = line
        if not HEXDIGITS.fullmatch(size):
            return "reject", "chunk-size-not-hex", b"".join(body), [], None
        size = int(size, 16)
        pos = eol + 2
        if size == 0:
            break
        if pos + size > n:
            body.append(data[pos:])
            return "incomplete", "chunk-data", b"".join(body), [], None
        chunk = data[pos:pos + size]
        pos += size
        term = data[pos:pos + 2]
        if len(term) < 2 and b"\r\n".startswith(term):
            body.append(chunk)
            return "incomplete", "chunk-terminator", b"".join(body), [], None
        if term != b"\r\n":
            body.append(chunk)
            return "reject", "missing-chunk-crlf", b"".join(body), [], None
        body.append(chunk)
        pos += 2
    # trailer section
    if data[pos:pos + 2] == b"\r\n":
        return "ok", None, b"".join(body), [], pos + 2
    end = data.find(b"\r\n\r\n", pos)
    if end < 0:
        # unterminated trailer block: the body itself is complete (don't-care); nothing may follow
        return "incomplete", "trailer-block", b"".join(body), [], None
    fields, bad = parse_field_lines(data[pos:end])
    if bad:
        return "reject", "trailer:" + bad, b"".join(body), [], None
    return "ok", None, b"".join(body), fields, end + 4


def read_message(data, pos, first=True, proxy_protocol=False):
    m = Msg()
    m.start = pos
    if pos >= len(data):
        return None
    if proxy_protocol and first and data.startswith(b"PROXY", pos):
        eol = data.find(b"\r\n", pos)
        if eol < 0:
            m.verdict, m.reason = "INCOMPLETE", "proxy-line"
            return m
        pos = eol + 2
    eol = data.find(b"\r\n", pos)
    if eol < 0:
        m.verdict, m.reason = "INCOMPLETE", "request-line"
        return m
    line = data[pos:eol]
    rl = REQLINE.fullmatch(line)
    if not rl:
        if proxy_protocol and not first and line.startswith(b"PROXY "):
            # a PROXY protocol line is connection preamble: after the first request it is just not a request line
            m.verdict, m.reason = "R", "proxy-line-after-first-request"
            return m
        m.verdict, m.reason = "NOREAD", "request-line-not-strict"
        return m
    m.method, m.target = rl.group(1), rl.group(2)
    m.version = (int(rl.group(3)), int(rl.group(4)))
    if m.version[0] != 1:
        m.verdict, m.reason = "NOREAD", "http-major-version"
        return m
    pos = eol + 2
    if data[pos:pos + 2] == b"\r\n":
        block, pos = b"", pos + 2
    else:
        end = data.find(b"\r\n\r\n", pos)
        if end < 0:
            m.verdict, m.reason = "INCOMPLETE", "header-block"
            return m
        block, pos = data[pos:end], end + 4
    fields, bad = parse_field_lines(block)
    if bad:
        m.verdict, m.reason = "R", bad
        return m
    m.fields = fields
    mode, arg, verdict, reason, no_further = framing(fields, m.version)
    m.verdict, m.reason, m.no_further = verdict, reason, no_further
    if verdict == "R":
        return m
    if mode == "none":
        m.body_status, m.end = "ok", pos
    elif mode == "length":
        if pos + arg > len(data):
            m.body, m.body_status, m.body_reason = data[pos:], "incomplete", "content-length-body"
        else:
            m.body, m.body_status, m.end = data[pos:pos + arg], "ok", pos + arg
    else:
        st, why, body, trailers, end = read_chunked(data, pos)
        m.body, m.trailers, m.body_status, m.body_reason, m.end = body, trailers, st, why, end
    return m


def read_stream(data, proxy_protocol=False, limit=16):
    """All messages of a connection, stopping at the first one after which nothing is defined."""
    out = []
    pos = 0
    first = True
    while len(out) < limit:
        m = read_message(data, pos, first, proxy_protocol)
        if m is None:
            break
        out.append(m)
        first = False
        if m.verdict not in ("F", "D") or m.body_status != "ok" or m.no_further:
            break
        pos = m.end
    return out
