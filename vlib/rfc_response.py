"""Strict client-side reader of the response bytes a server put on a connection (RFC 9112).
Independent reference: imports nothing from gunicorn.  DESIGN.md Appendix B."""
import re

TOKEN = re.compile(rb"[!#$%&'*+\-.^_`|~0-9A-Za-z]+")
STATUS = re.compile(rb"HTTP/1\.([0-9]) ([0-9]{3}) ([^\r\n]*)")
HEX = re.compile(rb"[0-9A-Fa-f]+")
DATE = re.compile(rb"(Mon|Tue|Wed|Thu|Fri|Sat|Sun), [0-9]{2} (Jan|Feb|Mar|Apr|May|Jun|Jul|Aug|Sep|Oct|Nov|Dec) [0-9]{4} [0-9]{2}:[0-9]{2}:[0-9]{2} GMT")


class Resp:
    __slots__ = ("minor", "code", "reason", "fields", "body", "framing", "start", "end", "head_end", "problems", "complete")

    def __init__(self):
        self.minor = self.code = self.reason = self.start = self.head_end = None
        self.problems = []
        self.fields = []
        self.body = b""
        self.framing = None
        self.complete = False
        self.end = None

    def get(self, name):
        name = name.lower()
        return [v for n, v in self.fields if n.lower() == name]

    def tokens(self, name):
        out = []
        for v in self.get(name):
            out += [t.strip(b" \t").lower() for t in v.split(b",") if t.strip(b" \t")]
        return out


def read_one(wire, pos, req_method, eof):
    """Parse one response starting at pos.  eof = the server closed after `wire`.
    Returns Resp (complete or not) or None if there are no bytes at pos."""
    if pos >= len(wire):
        return None
    r = Resp()
    r.start = pos
    eol = wire.find(b"\r\n", pos)
    if eol < 0:
        r.problems.append("incomplete-status-line")
        return r
    m = STATUS.fullmatch(wire[pos:eol])
    if not m:
        r.problems.append("bad-status-line")
        return r
    r.minor, r.code, r.reason = int(m.group(1)), int(m.group(2)), m.group(3)
    pos = eol + 2
    while True:
        eol = wire.find(b"\r\n", pos)
        if eol < 0:
            r.problems.append("incomplete-head")
            return r
        line = wire[pos:eol]
        pos = eol + 2
        if line == b"":
            break
        colon = line.find(b":")
        if colon <= 0 or not TOKEN.fullmatch(line[:colon]):
            r.problems.append("bad-field-line")
            r.fields.append((b"?", line))
            continue
        val = line[colon + 1:].strip(b" \t")
        if b"\r" in val or b"\n" in val or b"\x00" in val:
            r.problems.append("ctl-in-field-value")
        r.fields.append((line[:colon], val))
    r.head_end = pos
    te = r.tokens(b"transfer-encoding")
    cl = r.get(b"content-length")
    if te and cl:
        r.problems.append("te-and-cl")
    if len(cl) > 1:
        r.problems.append("repeated-content-length")
    if cl and not re.fullmatch(rb"[0-9]+", cl[0]):
        r.problems.append("bad-content-length")
        return r
    nobody = req_method == b"HEAD" or r.code < 200 or r.code in (204, 304)
    if nobody:
        r.framing = "none"
        r.end = pos
        r.complete = True
        return r
    if te:
        if te != [b"chunked"]:
            r.problems.append("te-not-just-chunked")
            return r
        r.framing = "chunked"
        body = []
        while True:
            eol = wire.find(b"\r\n", pos)
            if eol < 0:
                r.problems.append("incomplete-chunk-size")
                r.body = b"".join(body)
                return r
            if not HEX.fullmatch(wire[pos:eol]):
                r.problems.append("bad-chunk-size")
                r.body = b"".join(body)
                return r
            n = int(wire[pos:eol], 16)
            pos = eol + 2
            if n == 0:
                if wire[pos:pos + 2] != b"\r\n":
                    r.problems.append("bad-last-chunk" if len(wire) >= pos + 2 else "incomplete-last-chunk")
                    r.body = b"".join(body)
                    return r
                pos += 2
                break
            if pos + n + 2 > len(wire):
                r.problems.append("incomplete-chunk")
                body.append(wire[pos:pos + n])
                r.body = b"".join(body)
                return r
            body.append(wire[pos:pos + n])
            if wire[pos + n:pos + n + 2] != b"\r\n":
                r.problems.append("bad-chunk-terminator")
                r.body = b"".join(body)
                return r
            pos += n + 2
        r.body = b"".join(body)
        r.end = pos
        r.complete = True
        return r
    if cl:
        n = int(cl[0])
        r.framing = "length"
        r.body = wire[pos:pos + n]
        if pos + n > len(wire):
            r.problems.append("short-body")
            return r
        r.end = pos + n
        r.complete = True
        return r
    r.framing = "close"
    r.body = wire[pos:]
    r.end = len(wire)
    r.complete = bool(eof)
    if not eof:
        r.problems.append("close-delimited-but-open")
    return r


def read_all(wire, req_methods, eof, expect_continue=()):
    """Parse the whole connection.  req_methods: list of request methods (bytes), in order.
    Returns (responses, problems) where problems concern the connection as a whole."""
    out = []
    problems = []
    pos = 0
    i = 0
    while pos < len(wire):
        method = req_methods[i] if i < len(req_methods) else b"GET"
        if i in expect_continue and wire.startswith(b"HTTP/1.1 100 Continue\r\n\r\n", pos):
            pos += len(b"HTTP/1.1 100 Continue\r\n\r\n")
            continue
        r = read_one(wire, pos, method, eof)
        if r is None:
            break
        out.append(r)
        if not r.complete:
            break
        if i >= len(req_methods):
            problems.append("more-responses-than-requests")
        pos = r.end
        i += 1
    if out and out[-1].complete and out[-1].end < len(wire):
        problems.append("bytes-after-last-response")
    return out, problems
