"""./check driver.  Contract: exit 0 = property held on everything explored (KNOWN-FINDING lines
allowed); exit 1 + 'VIOLATION property=<id> replay=<path>' = unlisted violation; exit 2 = harness
error (never a verdict)."""
import argparse
import hashlib
import importlib
import json
import os
import sys
import time
import traceback

from . import evidence, findings

ROOT = os.path.dirname(os.path.dirname(os.path.abspath(__file__)))


class Ctx:
    def __init__(self, prop, tier, seed, jobs):
        self.prop, self.tier, self.seed, self.jobs = prop, tier, seed, jobs
        self.thorough = tier == "thorough"


class Result:
    """What a property module returns from run(ctx)."""

    def __init__(self, level, coverage, violations=(), assumptions=()):
        self.level = level
        self.coverage = coverage
        self.violations = list(violations)   # dicts: fingerprint, summary, case
        self.assumptions = list(assumptions)


def violation(fingerprint, summary, case):
    return {"fingerprint": fingerprint, "summary": summary, "case": case}


def write_replay(prop, v):
    d = os.path.join(ROOT, "replays", prop)
    os.makedirs(d, exist_ok=True)
    blob = json.dumps(evidence._jsonable(v), sort_keys=True)
    name = hashlib.sha1(blob.encode()).hexdigest()[:12] + ".json"
    path = os.path.join(d, name)
    with open(path, "w") as f:
        json.dump({"property": prop, "fingerprint": v["fingerprint"], "summary": v["summary"],
                   "case": evidence._jsonable(v["case"])}, f, indent=1, sort_keys=True)
        f.write("\n")
    return path


def selftest():
    import subprocess
    rc = 0
    # every property module imports
    for i in range(1, 21):
        name = "props.c%02d" % i
        if os.path.exists(os.path.join(ROOT, "props", "c%02d.py" % i)):
            importlib.import_module(name)
    # manifest + evidence validate with the real schemas when python3-vt is around
    code = r'''
import json, sys, glob, jsonschema
m = json.load(open("MANIFEST.json")); s = json.load(open("/root/.vp/MANIFEST.schema.json"))
jsonschema.validate(m, s)
es = json.load(open("/root/.vp/EVIDENCE.schema.json"))
for p in glob.glob("evidence/*.json"):
    jsonschema.validate(json.load(open(p)), es)
print("schemas ok")
'''
    try:
        if os.path.exists("/root/.vp/MANIFEST.schema.json"):
            out = subprocess.run(["python3-vt", "-c", code], cwd=ROOT, capture_output=True, text=True, timeout=120)
            sys.stdout.write(out.stdout)
            if out.returncode != 0:
                sys.stdout.write(out.stderr)
                rc = 2
    except FileNotFoundError:
        print("python3-vt not found; schema validation skipped")
    print("selftest %s" % ("ok" if rc == 0 else "FAILED"))
    return rc


def main(argv=None):
    ap = argparse.ArgumentParser()
    ap.add_argument("prop", nargs="?")
    ap.add_argument("--tier", default=os.environ.get("VERIF_TIER") or "quick", choices=["quick", "thorough"])
    ap.add_argument("--replay")
    ap.add_argument("--jobs", type=int, default=0)
    ap.add_argument("--selftest", action="store_true")
    a = ap.parse_args(argv)
    if a.selftest:
        return selftest()
    if not a.prop:
        ap.error("property id required")
    prop = a.prop.upper()
    try:
        seed = int(os.environ.get("VERIF_SEED", "0"))
    except ValueError:
        seed = 0
    if a.jobs:
        os.environ["VERIF_JOBS"] = str(a.jobs)
    mod = importlib.import_module("props." + prop.lower())

    if a.replay:
        with open(a.replay) as f:
            rp = json.load(f)
        v = mod.replay(rp["case"])
        if v:
            print("REPRODUCED property=%s fingerprint=%s" % (prop, v["fingerprint"]))
            print(v["summary"])
            return 1
        print("not reproduced")
        return 0

    ctx = Ctx(prop, a.tier, seed, a.jobs)
    t0 = time.time()
    try:
        res = mod.run(ctx)
    except Exception:
        traceback.print_exc()
        print("HARNESS-ERROR property=%s" % prop)
        return 2
    wall = time.time() - t0

    known = findings.known_for(prop)
    by_fp = {}
    for v in res.violations:
        by_fp.setdefault(v["fingerprint"], []).append(v)
    unlisted = 0
    seen_known = []
    lines = []
    for fp in sorted(by_fp):
        vs = by_fp[fp]
        if fp in known:
            seen_known.append(fp)
            lines.append("KNOWN-FINDING: property=%s %s [%s; %d instance(s) this run]" % (
                prop, known[fp]["what"], fp, len(vs)))
        else:
            unlisted += 1
            path = write_replay(prop, vs[0])
            lines.append("VIOLATION property=%s replay=%s" % (prop, path))
            lines.append("  fingerprint=%s instances=%d: %s" % (fp, len(vs), vs[0]["summary"]))
    cov = dict(res.coverage)
    cov["known_findings_seen"] = seen_known
    cov["violation_fingerprints"] = sorted(fp for fp in by_fp if fp not in known)
    try:
        evidence.write(prop, a.tier, seed, res.level, cov, wall, unlisted, res.assumptions)
    except AssertionError as e:
        print("HARNESS-ERROR property=%s evidence invalid: %s" % (prop, e))
        return 2
    for ln in lines:
        print(ln)
    brief = {k: v for k, v in cov.items() if isinstance(v, (int, float, bool))}
    print("%s tier=%s seed=%d wall=%.1fs %s" % (prop, a.tier, seed, wall, json.dumps(brief, sort_keys=True)))
    return 1 if unlisted else 0


if __name__ == "__main__":
    sys.exit(main())
