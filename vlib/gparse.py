"""Driving the real gunicorn RequestParser over in-memory byte sources, and observing everything
the property-level oracles need.  Nothing here interprets HTTP: that is the oracles' job."""
import itertools

from gunicorn.config import Config
from gunicorn.http.parser import RequestParser
from gunicorn.http.errors import NoMoreData

PEER = ("127.0.0.1", 54321)

_CFG_CACHE = {}


def make_cfg(**kw):
    key = tuple(sorted((k, repr(v)) for k, v in kw.items()))
    c = _CFG_CACHE.get(key)
    if c is None:
        c = Config()
        for k, v in kw.items():
            c.set(k, v)
        _CFG_CACHE[key] = c
    return c


class CountingSource:
    """Iterator over pre-cut chunks that remembers how many bytes were pulled."""

    def __init__(self, chunks):
        self.chunks = list(chunks)
        self.i = 0
        self.pulled = 0

    def __iter__(self):
        return self

    def __next__(self):
        if self.i >= len(self.chunks):
            raise StopIteration
        c = self.chunks[self.i]
        self.i += 1
        self.pulled += len(c)
        return c


def kind_of(exc):
    """Coarse terminal kind: how the connection's request sequence ended."""
    if isinstance(exc, StopIteration):
        return "stop"
    if isinstance(exc, NoMoreData):
        return "nomore"
    return "reject"


def drain(body, step=8192):
    """Read a body to its end; returns (bytes, None | exception)."""
    out = []
    try:
        while True:
            d = body.read(step)
            if not d:
                break
            out.append(d)
    except Exception as e:          # body-level framing error
        return b"".join(out), e
    return b"".join(out), None


SKIP = (("skip", None),)


def drain_mixed(body, program):
    if program == SKIP:
        return None, None           # the application does not touch the body at all
    return _drain_mixed(body, program)


def _drain_mixed(body, program):
    """Read a body with a call program: a tuple of ('readline', n|None) / ('read', n) steps, the last step repeated
    until the body is exhausted.  Same return shape as drain()."""
    out = []
    try:
        i = 0
        while True:
            op, n = program[min(i, len(program) - 1)]
            i += 1
            if op == "readline":
                d = body.readline() if n is None else body.readline(n)
            else:
                d = body.read(n)
            if not d:
                break
            out.append(d)
    except Exception as e:
        return b"".join(out), e
    return b"".join(out), None


def parse_stream(chunks, cfg, peer=PEER, max_requests=8, step=8192, program=None):
    """Returns (requests, end_kind, end_exc_name, end_exc_text).
    requests: list of (method, uri, version, headers, body, body_err_kind, trailers, end_offset)
    end_offset (per request) = bytes pulled from the source - bytes still in the unreader buffer,
    taken right after the body was drained (None when the body ended in an error)."""
    src = CountingSource(chunks)
    p = RequestParser(cfg, src, peer)
    reqs = []
    end = None
    overreads = []
    parse_stream.last_overreads = overreads
    try:
        for _ in range(max_requests):
            req = next(p)
            body, err = drain(req.body, step) if program is None else drain_mixed(req.body, program)
            if body is None:
                off = None
            elif err is None:
                off = src.pulled - len(p.unreader.buf.getvalue())
                # chunks the parser had to pull to see the last byte of this message; pulling more means that on a live
                # socket it would sit in recv() waiting for bytes the message does not need
                need = 0
                acc = 0
                for ci, ch in enumerate(src.chunks):
                    acc += len(ch)
                    if acc >= off:
                        need = ci + 1
                        break
                if src.i > need:
                    overreads.append((len(reqs), src.i - need))
            else:
                off = None
            reqs.append((req.method, req.uri, req.version, tuple(req.headers), body,
                         None if err is None else kind_of(err), tuple(req.trailers), off,
                         None if err is None else type(err).__name__))
            if err is not None:
                end = err
                break
        else:
            end = None
    except StopIteration as e:
        end = e
    except Exception as e:
        end = e
    if end is None:
        return reqs, "cap", "cap", ""
    return reqs, kind_of(end), type(end).__name__, str(end)[:80]


def cut(stream, cuts):
    """Cut a byte string at the given sorted offsets (each 0 < c < len)."""
    out = []
    prev = 0
    for c in cuts:
        out.append(stream[prev:c])
        prev = c
    out.append(stream[prev:])
    return out


def all_cuts(n, k):
    """All sorted tuples of at most k cut offsets in 1..n-1 (the empty tuple first)."""
    for r in range(0, k + 1):
        yield from itertools.combinations(range(1, n), r)
