"""Evidence writer (schema: /root/.vp/EVIDENCE.schema.json). Hand-rolled shape check because
jsonschema is not installed in /venv; `./check --selftest` re-validates with python3-vt."""
import json
import os

ROOT = os.path.dirname(os.path.dirname(os.path.abspath(__file__)))
LEVELS = ("exploration", "fault_enumeration", "model_checking", "proof", "translation_validation", "other")


def _jsonable(x, depth=0):
    if isinstance(x, bytes):
        return x.decode("latin-1").encode("unicode_escape").decode("ascii")
    if isinstance(x, (str, int, float, bool)) or x is None:
        return x
    if isinstance(x, dict):
        return {str(k): _jsonable(v, depth + 1) for k, v in x.items()}
    if isinstance(x, (list, tuple, set, frozenset)):
        return [_jsonable(v, depth + 1) for v in x]
    return repr(x)


def check_shape(ev):
    for k in ("property_id", "tier", "seed", "level", "coverage", "wall_s"):
        assert k in ev, "evidence lacks %s" % k
    assert ev["tier"] in ("quick", "thorough")
    assert ev["level"] in LEVELS
    assert isinstance(ev["seed"], int)
    cov = ev["coverage"]
    if ev["level"] == "model_checking" and all(k in cov for k in ("states", "transitions", "traces_validated_against_impl", "samples")):
        assert cov["states"] >= 1 and cov["transitions"] >= 1 and len(cov["samples"]) >= 1
    else:
        assert cov.get("evaluations", 0) >= 1, "evaluations"
        assert cov.get("distinct_nontrivial", 0) >= 2, "distinct_nontrivial"
        assert isinstance(cov.get("rule"), str)
        assert len(cov.get("samples", [])) >= 1, "samples"


def write(prop, tier, seed, level, coverage, wall_s, violations, assumptions=()):
    ev = {
        "property_id": prop,
        "tier": tier,
        "seed": int(seed),
        "level": level,
        "coverage": _jsonable(coverage),
        "assumptions": list(assumptions),
        "wall_s": round(float(wall_s), 3),
        "violations": int(violations),
    }
    check_shape(ev)
    d = os.path.join(ROOT, "evidence")
    os.makedirs(d, exist_ok=True)
    path = os.path.join(d, "%s.json" % prop)
    tmp = path + ".tmp"
    with open(tmp, "w") as f:
        json.dump(ev, f, indent=1, sort_keys=True)
        f.write("\n")
    os.replace(tmp, path)
    return path
