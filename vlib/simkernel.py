"""E4 - simulated kernel around the REAL gunicorn.arbiter.Arbiter.

The arbiter module's names os / select / time / signal / sys / random / sock / systemd / util /
Pidfile are rebound to facades of a Kernel object that owns: the process table (fork, kill,
waitpid, zombies), signal registration and delivery, virtual time, the listeners, and (through
vlib.simfs) the pid file.  The wake-up pipe stays a real os.pipe().  Python-level signal handlers
run synchronously inside a facade call ('delivery point'), which is where CPython runs them (after
the C call returns, before its result is stored) - so 'SIGCHLD between fork() returning and
WORKERS[pid] = worker' is the delivery point 'fork.return'.

A run is driven by a *script* (environment events consumed whenever the master is quiescent, i.e.
blocked in select with an empty pipe) and an *inject* map {delivery point index: event} for
mid-flight events.  Everything is deterministic: the same (script, inject, params) gives the same run."""
import errno
import os as real_os
import select as real_select
import signal as real_signal
import sys as real_sys
import importlib.util

from . import simfs

SIG = real_signal
MASTER_PID = 100

_KERNEL = None          # the kernel of the run in progress (SimWorker/QuietLogger are created by gunicorn code)


class Horizon(BaseException):
    """Raised out of select() when the scripted history (and its settling ticks) is over."""


class ExecReplaced(BaseException):
    """os.execvpe in the re-exec child branch."""

    def __init__(self, path, args, env):
        self.path, self.args, self.env = path, args, env


class SimProc:
    def __init__(self, pid, kind, ppid):
        self.pid, self.kind, self.ppid = pid, kind, ppid
        self.alive = True
        self.zombie = False
        self.status = None
        self.death_at = None
        self.death_status = 0
        self.term_at = None
        self.signals = []
        self.hb_frozen_at = None      # None = healthy (heartbeat always fresh)
        self.hang_kind = None         # None | "app" | "stopped" | "ignore-abrt"
        self.obj = None
        self.born_at = 0.0


class QuietLogger:
    def __init__(self, cfg):
        self.cfg = cfg
        self.records = []

    def _rec(self, lvl, msg, *args, **kw):
        try:
            text = msg % args if args else msg
        except Exception:
            text = repr((msg, args))
        self.records.append((lvl, text))
        if _KERNEL is not None:
            _KERNEL.trace.append(("log", lvl, text[:120]))

    def debug(self, msg, *a, **kw):
        pass

    def info(self, msg, *a, **kw):
        self._rec("info", msg, *a)

    def warning(self, msg, *a, **kw):
        self._rec("warning", msg, *a)

    def error(self, msg, *a, **kw):
        self._rec("error", msg, *a)

    def critical(self, msg, *a, **kw):
        self._rec("critical", msg, *a)

    def exception(self, msg, *a, **kw):
        self._rec("exception", msg, *a)

    def log(self, lvl, msg, *a, **kw):
        self._rec(str(lvl), msg, *a)

    def reopen_files(self):
        pass

    def close_on_exec(self):
        pass


class SimTmp:
    """The heartbeat file as the master sees it.  The object life cycle (open / closed, what a call on a closed one
    raises) is the real gunicorn.workers.workertmp.WorkerTmp's; only the time stamp it reports is the simulated one."""

    def __init__(self, worker):
        self.worker = worker
        self.closed = False
        self.real = None

    def last_update(self):
        k = _KERNEL
        p = k.proc_of(self.worker)
        if self.closed:
            self.real.last_update()      # raises what the real object raises once it is closed
            raise AssertionError("simkernel: last_update() on a closed WorkerTmp returned")
        if p is None:
            return k.now
        if not p.alive:
            return p.died_at
        if p.hb_frozen_at is not None:
            return p.hb_frozen_at
        return k.heartbeat_of(p)

    def close(self):
        if self.real is None:
            # a real WorkerTmp over a throw-away descriptor (its __init__ only creates the file, which the simulated
            # kernel does not model; creating real temp files per simulated worker costs 4x the run time)
            from gunicorn.workers.workertmp import WorkerTmp
            self.real = WorkerTmp.__new__(WorkerTmp)
            self.real._tmp = open(real_os.devnull, "w+b", 0)
        self.closed = True
        return self.real.close()

    def fileno(self):
        return -1

    def __del__(self):
        try:
            if self.real is not None and self.real._tmp is not None:
                self.real._tmp.close()
        except Exception:
            pass


class SimWorker:
    """Stands in for cfg.worker_class: only what the arbiter touches in the master process."""

    def __init__(self, age, ppid, sockets, app, timeout, cfg, log):
        self.age, self.ppid, self.sockets, self.app, self.timeout, self.cfg, self.log = age, ppid, sockets, app, timeout, cfg, log
        self.pid = "[booting]"
        self.booted = False
        self.aborted = False
        self.tmp = SimTmp(self)
        _KERNEL.last_worker_obj = self
        _KERNEL.worker_objs.append(self)

    def __str__(self):
        return "<SimWorker %s>" % self.pid


class SimListener:
    def __init__(self, kernel, name, inherited=False):
        self.kernel, self.name, self.inherited = kernel, name, inherited
        self.closed = False
        self.fd = 7 + len(kernel.listeners)
        kernel.listeners.append(self)

    def getsockname(self):
        # what the kernel reports: the resolved address, not the spelling in the configuration
        if isinstance(self.name, tuple) and self.name[0] == "localhost":
            return ("127.0.0.1",) + tuple(self.name[1:])
        return self.name

    def fileno(self):
        return self.fd

    def close(self):
        self.kernel.point("listener.close")
        self.closed = True
        self.kernel.trace.append(("listener-close", self.name))

    def __str__(self):
        return "sim:%s" % (self.name,)


class PointDict(dict):
    """Arbiter.WORKERS with a delivery point in front of every access (a window between statements)."""

    def _p(self, what):
        k = _KERNEL
        if k is not None:
            k.point("WORKERS." + what)

    def __setitem__(self, key, value):
        self._p("setitem")
        dict.__setitem__(self, key, value)

    def pop(self, *a):
        self._p("pop")
        return dict.pop(self, *a)

    def items(self):
        self._p("items")
        return dict.items(self)

    def keys(self):
        self._p("keys")
        return dict.keys(self)

    def values(self):
        self._p("values")
        return dict.values(self)

    def __len__(self):
        self._p("len")
        return dict.__len__(self)


class SimApp:
    def __init__(self, cfgs):
        self.cfgs = list(cfgs)
        self.i = 0
        self.cfg = self.cfgs[0]
        self.reloads = 0

    def reload(self):
        self.reloads += 1
        self.i = min(self.i + 1, len(self.cfgs) - 1)
        self.cfg = self.cfgs[self.i]

    def wsgi(self):
        return None


def make_cfg(workers=2, timeout=30, graceful_timeout=30, pidfile=None, bind=None, daemon=False, **extra):
    from gunicorn.config import Config
    c = Config()
    c.set("workers", workers)
    c.set("timeout", timeout)
    c.set("graceful_timeout", graceful_timeout)
    c.set("worker_class", SimWorker)
    c.set("logger_class", QuietLogger)
    if pidfile:
        c.set("pidfile", pidfile)
    if bind:
        c.set("bind", bind)
    if daemon:
        c.set("daemon", True)
    for k, v in extra.items():
        c.set(k, v)
    return c


class Kernel:
    """params: term ('now' | 'late' | 'never'), abrt ('die' | 'ignore'), settle (ticks after the script)."""

    def __init__(self, script=(), inject=None, term="now", abrt="die", settle=3, env=None, ppid=1,
                 master_pid=MASTER_PID, fs=None, hb_gap=0.0, on_quiescent=None, late_delay=0.25, max_points=4000,
                 other_children=0, pid_order="ascending"):
        self.script = list(script)
        self.script_pos = 0
        self.inject = dict(inject or {})
        self.term, self.abrt, self.settle = term, abrt, settle
        self.late_delay = late_delay
        self.wall_offset = 1700000000.0
        self.now = 1000.0
        self.procs = {}
        self.reaped = []
        self.next_pid = master_pid + 1 if pid_order == "ascending" else master_pid + 9000
        self.pid_step = 1 if pid_order == "ascending" else -1      # descending = the kernel's pid counter wrapped around
        self.master_pid = master_pid
        self.ppid = ppid
        self.handlers = {}
        self.pending = []
        self.depth = 0
        self.npoints = 0
        self.point_labels = []
        self.quiescent_points = []        # npoints value at each quiescence
        self.trace = []
        self.kills = []
        self.forks = []
        self.listeners = []
        self.create_socket_calls = 0
        self.env = dict(env or {})
        self.last_worker_obj = None
        self.worker_objs = []
        self.fs = fs or simfs.SimFS()
        self.fs.live.add(master_pid)
        self.fs.cur_pid = master_pid
        self.pipes = []
        self.settled = 0
        self.hb_gap = hb_gap
        self.on_quiescent = on_quiescent
        self.max_points = max_points
        self.exec_calls = []
        self.fork_returns_zero_once = False
        self.arbiter = None
        self.quiescences = 0
        self.fork_seq = 0
        self.in_midflight = False
        self.script_done_point = None     # npoints when the scripted history was over and settling began
        # children of the master that are not workers (e.g. helpers forked by a server hook)
        for _ in range(other_children):
            p = SimProc(self.next_pid, "other", master_pid)
            self.procs[p.pid] = p
            self.fs.live.add(p.pid)
            self.next_pid += self.pid_step

    # ------------------------------------------------------------ process table
    def proc_of(self, worker_obj):
        for p in list(self.procs.values()) + self.reaped:
            if p.obj is worker_obj:
                return p
        return None

    def heartbeat_of(self, p):
        if self.hb_gap <= 0:
            return self.now
        # a healthy worker notifies every hb_gap seconds, phase fixed by its birth
        n = int((self.now - p.born_at) / self.hb_gap)
        return p.born_at + n * self.hb_gap

    def children(self, live_only=False):
        return [p for p in self.procs.values() if p.ppid == self.master_pid and (p.alive or not live_only)]

    def die(self, p, status):
        if not p.alive:
            return
        p.alive = False
        p.zombie = True
        p.status = status
        p.died_at = self.now
        self.fs.live.discard(p.pid)
        self.trace.append(("died", p.pid, status))
        if SIG.SIGCHLD not in self.pending:
            self.pending.append(SIG.SIGCHLD)

    def run_due_timers(self):
        for p in list(self.procs.values()):
            if p.alive and p.death_at is not None and p.death_at <= self.now + 1e-9:
                self.die(p, p.death_status)

    # ------------------------------------------------------------ events
    def live_ranked(self):
        return sorted((p for p in self.children() if p.alive and p.kind == "worker"), key=lambda p: getattr(p, "seq", p.pid))

    def apply_event(self, ev):
        kind = ev[0]
        self.trace.append(("event",) + tuple(ev))
        if kind == "exit":
            live = self.live_ranked()
            if ev[1] < len(live):
                self.die(live[ev[1]], ev[2])
        elif kind == "exit2":
            live = self.live_ranked()
            for r in (ev[1], ev[2]):
                if r < len(live):
                    self.die(live[r], ev[3])
        elif kind == "sig":
            s = getattr(SIG, "SIG" + ev[1])
            if s not in self.pending:
                self.pending.append(s)
            else:
                # standard signals do not queue: a second one while the first is pending is merged
                self.trace[-1] = ("event-coalesced",) + tuple(ev)
        elif kind == "hang":
            live = self.live_ranked()
            if ev[1] < len(live):
                live[ev[1]].hb_frozen_at = self.now
                live[ev[1]].hang_kind = ev[2]
        elif kind == "exit-other":
            for p in self.children():
                if p.kind == "other" and p.alive:
                    self.die(p, ev[1])
                    break
        elif kind == "exit-master2":
            for p in self.children():
                if p.kind == "master2" and p.alive:
                    self.die(p, ev[1])
        elif kind in ("parent-exit", "parent-killed", "parent-exit-subreaper"):
            old = self.ppid
            # orphans go to init - or to the nearest child subreaper (systemd --user, docker --init, tini -s)
            self.ppid = 1 if kind != "parent-exit-subreaper" else 4242
            kind = "parent-exit" if kind == "parent-exit-subreaper" else kind
            self.fs.live.discard(old)
            if kind == "parent-exit":
                # an orderly exit of the old master removes its own pid file
                for path, ino in list(self.fs.files.items()):
                    if ino.data == b"%d\n" % old:
                        del self.fs.files[path]
        elif kind == "tick":
            self.advance(1.0)
        elif kind == "clock-step":
            # the administrator (or NTP) steps the wall clock; the monotonic clock is unaffected
            self.wall_offset += ev[1]
        elif kind == "pass":
            # time passes, but less than the master's select timeout: only meaningful in a compound event together
            # with something that wakes the master up
            self.advance(ev[1])
        else:
            raise AssertionError(ev)

    def advance(self, dt):
        # time moves in slices so that timers fire in order
        end = self.now + dt
        deadlines = sorted(p.death_at for p in self.procs.values() if p.alive and p.death_at is not None and p.death_at <= end)
        for d in deadlines:
            self.now = max(self.now, d)
            self.run_due_timers()
        self.now = end

    def deliver_pending(self):
        while self.pending and self.depth < 2:
            s = self.pending.pop(0)
            h = self.handlers.get(s)
            if h is None or h in (SIG.SIG_DFL, SIG.SIG_IGN):
                continue
            self.depth += 1
            try:
                h(s, None)
            finally:
                self.depth -= 1

    def point(self, label):
        idx = self.npoints
        self.npoints += 1
        if self.npoints > self.max_points:
            raise Horizon("point budget exhausted")
        self.point_labels.append(label)
        ev = self.inject.get(idx)
        if ev is not None:
            self.trace.append(("midflight-at", idx, label))
            self.apply_event(ev)
        self.run_due_timers()
        self.deliver_pending()

    # ------------------------------------------------------------ facades
    def os_facade(self):
        k = self

        class OS:
            environ = k.env
            WNOHANG = real_os.WNOHANG
            path = real_os.path
            devnull = real_os.devnull

            def __getattr__(self, name):
                return getattr(real_os, name)

            @staticmethod
            def getpid():
                return k.master_pid

            @staticmethod
            def getppid():
                return k.ppid

            @staticmethod
            def pipe():
                p = real_os.pipe()
                k.pipes.append(p)
                return p

            @staticmethod
            def fork():
                k.point("fork.entry")
                if k.fork_returns_zero_once:
                    k.fork_returns_zero_once = False
                    return 0
                pid = k.next_pid
                k.next_pid += k.pid_step
                k.fork_seq += 1
                kind = "master2" if k.arbiter is not None and getattr(k.arbiter, "_in_reexec", False) else "worker"
                p = SimProc(pid, kind, k.master_pid)
                p.born_at = k.now
                p.seq = k.fork_seq
                if kind == "worker":
                    p.obj = k.last_worker_obj
                k.procs[pid] = p
                k.fs.live.add(pid)
                k.forks.append(pid)
                k.trace.append(("fork", pid, kind))
                k.point("fork.return")
                return pid

            @staticmethod
            def kill(pid, sig):
                k.point("kill.entry")
                p = k.procs.get(pid)
                if p is None:
                    k.trace.append(("kill-esrch", pid, int(sig)))
                    raise ProcessLookupError(errno.ESRCH, "No such process")
                # (birth order, pid) of every tracked worker - birth order is the kernel's, not the arbiter's own age counter
                tracked = sorted((getattr(k.procs.get(wp), "seq", 0), wp) for wp, w in dict.items(k.arbiter.WORKERS)) if k.arbiter is not None else []
                k.kills.append((k.now, pid, int(sig), tracked, p.alive))
                k.trace.append(("kill", pid, int(sig), k.now))
                if p.alive:
                    p.signals.append(int(sig))
                    k.react(p, sig)
                k.point("kill.return")

            @staticmethod
            def waitpid(pid, flags):
                k.point("waitpid.entry")
                ch = k.children()
                if not ch:
                    raise ChildProcessError(errno.ECHILD, "No child processes")
                z = sorted((p for p in ch if p.zombie), key=lambda p: (getattr(p, "died_at", 0), p.pid))
                if not z:
                    res = (0, 0)
                else:
                    p = z[0]
                    del k.procs[p.pid]
                    k.reaped.append(p)
                    k.trace.append(("reaped", p.pid, p.status))
                    res = (p.pid, p.status)
                k.point("waitpid.return")
                return res

            @staticmethod
            def chdir(p):
                k.trace.append(("chdir", p))

            @staticmethod
            def execvpe(path, args, env):
                k.exec_calls.append((path, list(args), dict(env)))
                raise ExecReplaced(path, args, env)
        return OS()

    def react(self, p, sig):
        sig = int(sig)
        if p.kind != "worker":
            if sig in (SIG.SIGKILL,):
                self.die(p, 9)
            return
        stopped = p.hang_kind == "stopped"
        if sig == SIG.SIGKILL:
            self.die(p, 9)
        elif stopped:
            return
        elif sig == SIG.SIGTERM:
            if p.term_at is None:
                p.term_at = self.now
            if p.hang_kind is not None:
                return
            if self.term == "swallow1" and self.now - p.born_at < 0.05:
                # TERM arriving before the worker installed its handlers is lost; the master repeats it
                p.term_at = None
                return
            if self.term in ("now", "swallow1"):
                self.die(p, 0)
            elif self.term == "late":
                if p.death_at is None:
                    p.death_at = self.now + self.late_delay
                    p.death_status = 0
        elif sig in (SIG.SIGQUIT, SIG.SIGINT):
            if p.hang_kind is None:
                self.die(p, 0)
        elif sig == SIG.SIGABRT:
            if p.hang_kind == "ignore-abrt" or self.abrt == "ignore":
                return
            self.die(p, 1 << 8)

    def select_facade(self):
        k = self

        class Select:
            error = real_select.error

            @staticmethod
            def select(r, w, x, timeout=None):
                k.point("select.entry")
                while True:
                    rr = real_select.select(r, [], [], 0)
                    if rr[0]:
                        return rr
                    # quiescent: the master sleeps, the environment moves
                    k.quiescences += 1
                    k.quiescent_points.append(k.npoints)
                    if k.on_quiescent is not None:
                        k.on_quiescent(k)
                    if k.script_pos < len(k.script):
                        ev = k.script[k.script_pos]
                        k.script_pos += 1
                    elif k.settled < k.settle:
                        if k.script_done_point is None:
                            k.script_done_point = k.npoints
                        k.settled += 1
                        ev = ("tick",)
                    else:
                        raise Horizon("end of script")
                    evs = ev if isinstance(ev[0], (tuple, list)) else [ev]
                    timed_out = False
                    for e in evs:
                        if e[0] == "tick":
                            timed_out = True
                        k.apply_event(tuple(e))
                    k.run_due_timers()
                    k.deliver_pending()
                    rr = real_select.select(r, [], [], 0)
                    if rr[0]:
                        return rr
                    if timed_out:
                        return ([], [], [])
        return Select()

    def time_facade(self):
        k = self

        class Time:
            @staticmethod
            def time():
                # the wall clock: unrelated to the monotonic clock the heartbeat protocol runs on (and it can be stepped)
                return k.now + k.wall_offset

            @staticmethod
            def monotonic():
                # murder_workers reads the clock once per worker: a delivery point inside its scan
                k.point("time.monotonic")
                return k.now

            @staticmethod
            def sleep(d):
                k.point("sleep.entry")
                k.advance(d)
                k.point("sleep.return")
        return Time()

    def signal_facade(self):
        k = self

        class Signal:
            def __getattr__(self, name):
                return getattr(real_signal, name)

            @staticmethod
            def signal(s, h):
                k.handlers[s] = h
        return Signal()

    def sys_facade(self):
        class Sys:
            def __getattr__(self, name):
                return getattr(real_sys, name)

            @staticmethod
            def exit(code=0):
                raise SystemExit(code)
        return Sys()

    def random_facade(self):
        class Random:
            @staticmethod
            def random():
                return 0.0
        return Random()

    def sock_facade(self):
        k = self

        class Sock:
            @staticmethod
            def create_sockets(cfg, log, fds=None):
                k.create_socket_calls += 1
                k.trace.append(("create-sockets", tuple(fds) if fds else None))
                out = []
                for addr in cfg.address:
                    out.append(SimListener(k, addr, inherited=bool(fds)))
                return out

            @staticmethod
            def close_sockets(listeners, unlink=True):
                for l in listeners:
                    name = l.getsockname()
                    l.close()
                    if unlink and isinstance(name, (str, bytes)):
                        k.trace.append(("unlink-socket", name))
        return Sock()

    def systemd_facade(self):
        class Systemd:
            SD_LISTEN_FDS_START = 3

            @staticmethod
            def listen_fds(unset_environment=True):
                return 0

            @staticmethod
            def sd_notify(state, logger, unset_environment=False):
                pass
        return Systemd()

    def util_facade(self):
        import gunicorn.util as real_util

        class Util:
            def __getattr__(self, name):
                return getattr(real_util, name)

            @staticmethod
            def _setproctitle(title):
                pass
        return Util()

    def pidfile_class(self):
        import gunicorn.pidfile as real
        spec = importlib.util.spec_from_file_location("verif_pidfile_for_arbiter", real.__file__)
        mod = importlib.util.module_from_spec(spec)
        spec.loader.exec_module(mod)
        self.fs.install(mod)
        return mod.Pidfile

    # ------------------------------------------------------------ running
    def cleanup(self):
        for p in self.pipes:
            for fd in p:
                try:
                    real_os.close(fd)
                except OSError:
                    pass
        self.pipes = []


class Outcome:
    __slots__ = ("end", "code", "exc", "kernel", "arbiter", "log")


def run_arbiter(cfgs, kernel, start_env=None):
    """Runs the real Arbiter.run() under `kernel` until it exits or the script's horizon.
    Returns Outcome(end in {'horizon','exit','exception'})."""
    global _KERNEL
    import gunicorn.arbiter as A
    names = ["os", "select", "time", "signal", "sys", "random", "sock", "systemd", "util", "Pidfile"]
    saved = {n: getattr(A, n) for n in names}
    _KERNEL = kernel
    o = Outcome()
    o.kernel = kernel
    o.exc = None
    o.code = None
    try:
        A.os = kernel.os_facade()
        A.select = kernel.select_facade()
        A.time = kernel.time_facade()
        A.signal = kernel.signal_facade()
        A.sys = kernel.sys_facade()
        A.random = kernel.random_facade()
        A.sock = kernel.sock_facade()
        A.systemd = kernel.systemd_facade()
        A.util = kernel.util_facade()
        A.Pidfile = kernel.pidfile_class()
        app = SimApp(cfgs)
        arb = A.Arbiter.__new__(A.Arbiter)
        # per-instance copies of the class-level mutable attributes
        arb.WORKERS = PointDict()
        arb.SIG_QUEUE = []
        arb.LISTENERS = []
        arb.PIPE = []
        arb.START_CTX = {}
        kernel.arbiter = arb
        o.arbiter = arb
        try:
            A.Arbiter.__init__(arb, app)
            arb.run()
            o.end = "returned"
        except Horizon:
            o.end = "horizon"
        except SystemExit as e:
            o.end = "exit"
            o.code = e.code
        except ExecReplaced as e:
            o.end = "exec"
        except BaseException as e:
            o.end = "exception"
            o.exc = "%s: %s" % (type(e).__name__, e)
        o.log = arb.log.records if getattr(arb, "log", None) is not None else []
    finally:
        for n, v in saved.items():
            setattr(A, n, v)
        kernel.cleanup()
        _KERNEL = None
    return o
