"""E5 - in-memory file system + process table for the real gunicorn.pidfile.Pidfile.

Supports exactly what pidfile.py uses (mkstemp, write, close, rename, chmod, unlink, open-for-read,
path.dirname/isdir, kill(pid, 0), getpid).  Every mutating/observing call is appended to a log; a crash
plan 'die before call k' raises Crash (a BaseException) there.  Semantics: process death, not power
loss - rename is atomic, data written before the crash is in the file."""
import errno
import io
import posixpath


class Crash(BaseException):
    pass


class Inode:
    __slots__ = ("data", "mode")

    def __init__(self):
        self.data = b""
        self.mode = 0o600


class SimFile:
    """What os.fdopen(fd, 'w') returns: buffered - nothing reaches the file before flush() / close()."""

    def __init__(self, fs, fd):
        self.fs, self.fd = fs, fd
        self.buf = b""
        self.closed = False

    def write(self, data):
        if isinstance(data, str):
            data = data.encode("utf-8")
        self.buf += data
        return len(data)

    def flush(self):
        if self.buf:
            self.fs._call("write", self.fd, self.buf)
            self.fs.fds[self.fd].data += self.buf
            self.buf = b""

    def close(self):
        if self.closed:
            return
        self.flush()
        self.fs._call("close", self.fd)
        del self.fs.fds[self.fd]
        self.closed = True

    def fileno(self):
        return self.fd

    def __enter__(self):
        return self

    def __exit__(self, *a):
        self.close()
        return False


class SimFS:
    def __init__(self, dirs=("/run",)):
        self.files = {}          # path -> Inode
        self.dirs = set(dirs) | {"/srv", "/tmp"}
        self.cwd = "/srv"        # relative names are relative to this; /tmp is another file system than everything else
        self.fds = {}            # fd -> Inode
        self.next_fd = 100
        self.tmp_counter = 0
        self.live = set()        # live pids
        self.cur_pid = None      # pid of the process on whose behalf code runs now
        self.log = []
        self.crash_at = None     # index in log before which to crash
        self.deleted = []        # (path, content at deletion, by pid)

    def norm(self, p):
        """One file has many spellings (/run/./app.pid, /run//app.pid, /run/x/../app.pid, a relative name): the kernel resolves them all."""
        if not isinstance(p, str) or not p:
            return p
        if not p.startswith("/"):
            p = posixpath.join(self.cwd, p)
        return posixpath.normpath(p)

    @staticmethod
    def device(p):
        return "tmpfs" if p == "/tmp" or p.startswith("/tmp/") else "rootfs"

    # ---- bookkeeping
    def _call(self, name, *args):
        if self.crash_at is not None and len(self.log) == self.crash_at:
            self.log.append(("CRASH-before", name) + args)
            raise Crash()
        self.log.append((name,) + args)

    def snapshot(self):
        return {p: i.data for p, i in self.files.items()}

    # ---- facade objects
    def os_module(self):
        fs = self

        class Path:
            dirname = staticmethod(posixpath.dirname)

            @staticmethod
            def isdir(p):
                return fs.norm(p) in fs.dirs

            @staticmethod
            def exists(p):
                return fs.norm(p) in fs.files or fs.norm(p) in fs.dirs

            lexists = exists

            @staticmethod
            def isfile(p):
                fs._call("stat", fs.norm(p))
                return fs.norm(p) in fs.files

            @staticmethod
            def getsize(p):
                fs._call("stat", fs.norm(p))
                if fs.norm(p) not in fs.files:
                    raise FileNotFoundError(errno.ENOENT, "No such file or directory", p)
                return len(fs.files[fs.norm(p)].data)

            # pure string functions
            join = staticmethod(posixpath.join)
            basename = staticmethod(posixpath.basename)
            normpath = staticmethod(posixpath.normpath)
            split = staticmethod(posixpath.split)
            splitext = staticmethod(posixpath.splitext)
            isabs = staticmethod(posixpath.isabs)
            abspath = staticmethod(posixpath.normpath)
            realpath = staticmethod(posixpath.normpath)
            sep = "/"

        class OS:
            path = Path
            SEEK_END = 2

            @staticmethod
            def getpid():
                return fs.cur_pid

            @staticmethod
            def kill(pid, sig):
                fs._call("kill", pid, sig)
                if pid not in fs.live:
                    raise OSError(errno.ESRCH, "No such process")

            @staticmethod
            def write(fd, data):
                fs._call("write", fd, data)
                fs.fds[fd].data += data
                return len(data)

            @staticmethod
            def close(fd):
                fs._call("close", fd)
                del fs.fds[fd]

            O_RDONLY, O_WRONLY, O_RDWR, O_CREAT, O_EXCL, O_TRUNC, O_APPEND = 0, 1, 2, 0o100, 0o200, 0o1000, 0o2000

            @staticmethod
            def open(path, flags, mode=0o777, **kw):
                path = fs.norm(path)
                fs._call("os.open", path, flags)
                exists = path in fs.files
                if flags & OS.O_CREAT and flags & OS.O_EXCL and exists:
                    raise FileExistsError(errno.EEXIST, "File exists", path)
                if not exists:
                    if not flags & OS.O_CREAT:
                        raise FileNotFoundError(errno.ENOENT, "No such file or directory", path)
                    fs.files[path] = Inode()
                ino = fs.files[path]
                if flags & OS.O_TRUNC and flags & (OS.O_WRONLY | OS.O_RDWR):
                    ino.data = b""
                fd = fs.next_fd
                fs.next_fd += 1
                fs.fds[fd] = ino
                return fd

            @staticmethod
            def fdopen(fd, mode="r", *a, **kw):
                fs._call("fdopen", fd)
                return SimFile(fs, fd)

            @staticmethod
            def fsync(fd):
                fs._call("fsync", fd)

            @staticmethod
            def rename(a, b):
                a, b = fs.norm(a), fs.norm(b)
                fs._call("rename", a, b)
                if a in fs.files and fs.device(a) != fs.device(b):
                    raise OSError(errno.EXDEV, "Invalid cross-device link", a)
                if a not in fs.files:
                    raise FileNotFoundError(errno.ENOENT, "No such file", a)
                if b in fs.files:
                    fs.deleted.append((b, fs.files[b].data, fs.cur_pid, "rename-over"))
                fs.files[b] = fs.files.pop(a)

            @staticmethod
            def chmod(p, mode):
                p = fs.norm(p)
                fs._call("chmod", p, mode)
                if p not in fs.files:
                    raise FileNotFoundError(errno.ENOENT, "No such file", p)
                fs.files[p].mode = mode

            @staticmethod
            def unlink(p):
                p = fs.norm(p)
                fs._call("unlink", p)
                if p not in fs.files:
                    raise FileNotFoundError(errno.ENOENT, "No such file", p)
                fs.deleted.append((p, fs.files[p].data, fs.cur_pid, "unlink"))
                del fs.files[p]
        return OS

    def tempfile_module(self):
        fs = self

        class TF:
            @staticmethod
            def mkstemp(dir=None, **kw):
                fs._call("mkstemp", dir)
                d = "/tmp" if dir is None else (fs.norm(dir) if dir else fs.cwd)     # dir="" is the current directory
                fs.tmp_counter += 1
                name = posixpath.join(d, "tmp%04d" % fs.tmp_counter)
                ino = Inode()
                fs.files[name] = ino
                fd = fs.next_fd
                fs.next_fd += 1
                fs.fds[fd] = ino
                return fd, name
        return TF

    def open_func(self):
        fs = self

        def sim_open(path, mode="r", *a, **kw):
            path = fs.norm(path)
            fs._call("open", path, mode)
            if "r" not in mode:
                raise io.UnsupportedOperation("simfs: read-only open")
            if path not in fs.files:
                raise FileNotFoundError(errno.ENOENT, "No such file or directory", path)
            data = fs.files[path].data

            class _Text(io.StringIO):
                """text-mode file: undecodable bytes raise when read, as with the real open()"""

                def read(self_, *a):
                    data.decode("utf-8")          # UnicodeDecodeError (a ValueError) like the real thing
                    return io.StringIO.read(self_, *a)
            return _Text(data.decode("utf-8", "replace"))
        return sim_open

    def shutil_module(self):
        fs = self
        osm = self.os_module()

        class SH:
            @staticmethod
            def move(src, dst, *a, **kw):
                """shutil.move: rename, or - across file systems - copy the bytes to a new file at dst and remove src."""
                try:
                    osm.rename(src, dst)
                    return dst
                except OSError as e:
                    if e.errno != errno.EXDEV:
                        raise
                s_, d_ = fs.norm(src), fs.norm(dst)
                fd = osm.open(d_, osm.O_WRONLY | osm.O_CREAT | osm.O_TRUNC)
                osm.write(fd, fs.files[s_].data)
                osm.close(fd)
                osm.unlink(s_)
                return dst
        return SH

    def install(self, module):
        """Bind module-level names of gunicorn.pidfile (or a copy) to this file system."""
        module.os = self.os_module()
        module.tempfile = self.tempfile_module()
        module.open = self.open_func()
        module.shutil = self.shutil_module()
