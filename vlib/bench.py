"""E2 - in-process worker bench: the real per-connection entry points of the sync, gthread and
async (base_async, shared by gevent/eventlet) workers, served over real sockets without forking.

The client side is scripted *before* the worker runs (send everything, then half-close / close /
reset), so the worker code never blocks and every execution is deterministic and single-threaded."""
import contextlib
import logging
import os
import socket
import struct

from gunicorn.glogging import Logger
from gunicorn.workers.sync import SyncWorker
from gunicorn.workers.gthread import ThreadWorker, TConn
from gunicorn.workers.base_async import AsyncWorker

from . import gparse

SERVER_ADDR = ("127.0.0.1", 8000)


class KeepAliveExpired(BaseException):
    """What gevent.Timeout / eventlet.Timeout are on this path: not an Exception subclass, raised inside the
    blocking read when the keep-alive period is over."""


class StubAsyncWorker(AsyncWorker):
    """The real AsyncWorker.handle/handle_request without a hub: the only thing gevent/eventlet add
    on this path is the keep-alive read timeout context - `Timeout(keepalive, False)`, a context manager
    that ends the block silently when its timer fires.  The timer 'fires' when the server-side socket of an
    'idle' client (SockProxy.idle) has nothing to read while the block is active."""

    in_keepalive_wait = False

    @contextlib.contextmanager
    def timeout_ctx(self):
        self.in_keepalive_wait = True
        try:
            yield
        except KeepAliveExpired:
            pass
        finally:
            self.in_keepalive_wait = False


class Capture(logging.Handler):
    def __init__(self):
        super().__init__()
        self.records = []

    def emit(self, record):
        try:
            msg = record.getMessage()
        except Exception as e:     # a logging call with broken arguments is an observation too
            msg = "<unformattable %r: %s>" % (record.msg, e)
        self.records.append((record.levelname, msg))


class FakeListener:
    def __init__(self, name=SERVER_ADDR):
        self.name = name

    def getsockname(self):
        return self.name


class SockProxy:
    """Thin wrapper over the real server-side socket recording close / use-after-close."""

    def __init__(self, sock):
        self._s = sock
        self.close_calls = 0
        self.use_after_close = []
        self.after_recv = None      # optional callback run once, right after the first recv returned data
        self.idle = None            # [worker, budget]: the client stays connected and silent once its bytes are read

    def _chk(self, what):
        if self.close_calls:
            self.use_after_close.append(what)

    def recv(self, n, *a):
        self._chk("recv")
        if self.idle is not None:
            try:
                d = self._s.recv(n, socket.MSG_DONTWAIT)
            except BlockingIOError:
                w = self.idle[0]
                if getattr(w, "in_keepalive_wait", False) and self.idle[1] > 0:
                    self.idle[1] -= 1
                    self.idle_expiries = getattr(self, "idle_expiries", 0) + 1
                    raise KeepAliveExpired()
                # outside the keep-alive wait nothing bounds the read: the silent client gives up eventually
                return b""
            return d
        d = self._s.recv(n, *a)
        if d and self.after_recv is not None:
            cb, self.after_recv = self.after_recv, None
            cb()
        return d

    def send(self, d, *a):
        self._chk("send")
        return self._s.send(d, *a)

    def sendall(self, d, *a):
        self._chk("sendall")
        return self._s.sendall(d, *a)

    def sendfile(self, *a, **kw):
        self._chk("sendfile")
        return self._s.sendfile(*a, **kw)

    def close(self):
        self.close_calls += 1
        return self._s.close()

    def __getattr__(self, name):
        return getattr(self._s, name)


def tcp_pair():
    ls = socket.socket()
    ls.bind(("127.0.0.1", 0))
    ls.listen(1)
    c = socket.socket()
    c.connect(ls.getsockname())
    s, _ = ls.accept()
    ls.close()
    return s, c


class Obs:
    """What one connection looked like from outside."""
    __slots__ = ("wire", "server_closed", "exc", "close_calls", "use_after_close", "access", "errors",
                 "alive", "nr", "handled")

    def as_dict(self):
        return {k: getattr(self, k) for k in self.__slots__}


class Bench:
    KINDS = ("sync", "gthread", "async")

    def __init__(self, kind, cfg_kw=None, app=None, access_format=None):
        kw = dict(cfg_kw or {})
        kw.setdefault("accesslog", "-")
        if access_format:
            kw["access_log_format"] = access_format
        self.kind = kind
        self.cfg = gparse.make_cfg(**kw)
        self.log = self.cfg.logger_class(self.cfg)       # glogging.Logger, or its statsd subclass when statsd_host is set
        self.acc = Capture()
        self.err = Capture()
        self.log.access_log.handlers = [self.acc]
        self.log.error_log.handlers = [self.err]
        self.log.error_log.setLevel(logging.DEBUG)
        self.log.access_log.propagate = False
        self.log.error_log.propagate = False
        cls = {"sync": SyncWorker, "gthread": ThreadWorker, "async": StubAsyncWorker}[kind]
        self.listener = FakeListener()
        self.worker = cls(1, os.getppid(), [self.listener], None, 15, self.cfg, self.log)
        self.worker.wsgi = app
        self.worker.pid = os.getpid()

    def set_app(self, app):
        self.worker.wsgi = app

    def close(self):
        try:
            self.worker.tmp.close()
        except Exception:
            pass

    def connection(self, data, ending="halfclose", peer=("127.0.0.1", 40000), tcp=False, pre_chunks=None):
        """Serve one connection: the client sends `data` (bytes, or a list of separately sent chunks),
        then ends the way `ending` says: 'halfclose' (SHUT_WR, keeps reading), 'close', 'reset'."""
        if tcp or ending in ("reset", "reset-after-read"):
            s, c = tcp_pair()
        else:
            s, c = socket.socketpair()
        chunks = data if isinstance(data, (list, tuple)) else [data]
        if ending == "reset-after-read" and not any(chunks):
            ending = "reset"            # nothing to read: the server would wait forever for the first byte
        sender = None
        try:
            if sum(len(ch) for ch in chunks) > 150000 and ending == "halfclose":
                # more than the socket buffers hold: the client writes while the worker runs (its bytes and their order are
                # fixed all the same; only the kernel's buffering decides how they are cut into reads)
                import threading

                def _send():
                    try:
                        for ch in chunks:
                            if ch:
                                c.sendall(ch)
                        c.shutdown(socket.SHUT_WR)
                    except OSError:
                        pass
                sender = threading.Thread(target=_send, daemon=True)
                sender.start()
                chunks = []
                ending = "halfclose-done"
            for ch in chunks:
                if ch:
                    c.sendall(ch)
            if ending == "halfclose":
                c.shutdown(socket.SHUT_WR)
            elif ending == "close":
                c.close()
            elif ending == "reset":
                c.setsockopt(socket.SOL_SOCKET, socket.SO_LINGER, struct.pack("ii", 1, 0))
                c.close()
            after = None
            if ending == "reset-after-read":
                # the client resets the connection between the server's first read and its reply
                def after(c=c):
                    import time
                    c.setsockopt(socket.SOL_SOCKET, socket.SO_LINGER, struct.pack("ii", 1, 0))
                    c.close()
                    time.sleep(0.002)
            o = self._serve(s, c if ending in ("halfclose", "idle", "halfclose-done") else None, peer, after, idle=ending == "idle")
            if sender is not None:
                sender.join(10)
        finally:
            for x in (s, c):
                try:
                    x.close()
                except OSError:
                    pass
        return o

    def _serve(self, s, c, peer, after_recv=None, idle=False):
        w = self.worker
        n_acc, n_err = len(self.acc.records), len(self.err.records)
        proxy = SockProxy(s)
        proxy.after_recv = after_recv
        if idle:
            proxy.idle = [w, 3]
        o = Obs()
        o.exc = None
        o.handled = 0
        try:
            if self.kind == "gthread":
                conn = TConn(self.cfg, proxy, peer, self.listener.getsockname())
                keep = True
                while keep:
                    o.handled += 1
                    conn.init()          # as ThreadWorker.enqueue_req does for every request of the connection
                    keep, _ = w.handle(conn)
                    if keep and not w.alive:
                        keep = False
                conn.close()
            else:
                proxy.setblocking(True)
                w.handle(self.listener, proxy, peer)
        except BaseException as e:      # nothing may escape handle(); SystemExit etc. are observations
            o.exc = "%s: %s" % (type(e).__name__, e)
        wire = b""
        closed = None
        if c is not None:
            c.settimeout(0.5)
            parts = []
            closed = False
            try:
                while True:
                    d = c.recv(65536)
                    if not d:
                        closed = True
                        break
                    parts.append(d)
            except (socket.timeout, BlockingIOError):
                closed = False
            except OSError:
                closed = True
            wire = b"".join(parts)
        o.wire = wire
        o.server_closed = closed
        o.close_calls = proxy.close_calls
        o.use_after_close = list(proxy.use_after_close)
        o.access = [m for _l, m in self.acc.records[n_acc:]]
        o.errors = self.err.records[n_err:]
        o.alive = w.alive
        o.nr = w.nr
        return o


class ParkSock(SockProxy):
    """Server-side socket that tells the driver when its handler is parked in recv()."""

    def __init__(self, sock):
        super().__init__(sock)
        self.parked = False

    def recv(self, n, *a):
        self.parked = True
        try:
            return self._s.recv(n, *a)
        finally:
            self.parked = False


class Interleaver:
    """Several connections served concurrently by ONE worker object, interleaved at request
    granularity - exactly the points where a gevent/eventlet worker switches between connections
    (a blocking recv) and where the threaded worker hands a connection back to its poller.
    Each connection's handler runs in its own OS thread but only one of them is ever unparked:
    the driver delivers one event, then waits until that handler is blocked in recv() again."""

    def __init__(self, bench_obj):
        import threading
        self.b = bench_obj
        self.threading = threading
        self.conns = {}

    def _wait_parked(self, c, timeout=5.0):
        import time
        t0 = time.time()
        while time.time() - t0 < timeout:
            if c["done"] or c["sock"].parked:
                return True
            time.sleep(0.0002)
        return False

    def open(self, name, peer):
        s, cl = socket.socketpair()
        ps = ParkSock(s)
        c = {"sock": ps, "client": cl, "peer": peer, "done": False, "exc": None, "raw": s, "wire": b""}
        b = self.b
        w = b.worker

        def run():
            try:
                if b.kind == "gthread":
                    conn = TConn(b.cfg, ps, peer, b.listener.getsockname())
                    keep = True
                    while keep:
                        conn.init()      # as ThreadWorker.enqueue_req does for every request of the connection
                        keep, _ = w.handle(conn)
                        if keep and not w.alive:
                            keep = False
                    conn.close()
                else:
                    ps.setblocking(True)
                    w.handle(b.listener, ps, peer)
            except BaseException as e:
                c["exc"] = "%s: %s" % (type(e).__name__, e)
            finally:
                c["done"] = True
        th = self.threading.Thread(target=run, daemon=True)
        c["thread"] = th
        self.conns[name] = c
        th.start()
        assert self._wait_parked(c), "handler did not park"
        return c

    def send(self, name, data):
        """Deliver bytes, let the handler run until it parks again; returns the bytes it wrote."""
        c = self.conns[name]
        try:
            c["client"].sendall(data)
        except OSError:
            return self._drain(c)       # the server already closed this connection
        import time
        time.sleep(0.0005)
        # the handler leaves recv, works, and parks again (or finishes)
        t0 = time.time()
        while time.time() - t0 < 5.0:
            if c["done"] or (c["sock"].parked and self._idle(c)):
                break
            time.sleep(0.0002)
        return self._drain(c)

    def _idle(self, c):
        # parked with nothing left to read on the server side
        import select
        r, _, _ = select.select([c["raw"]], [], [], 0)
        return not r

    def _drain(self, c):
        out = []
        c["client"].setblocking(False)
        try:
            while True:
                d = c["client"].recv(65536)
                if not d:
                    break
                out.append(d)
        except (BlockingIOError, OSError):
            pass
        c["client"].setblocking(True)
        got = b"".join(out)
        c["wire"] += got
        return got

    def close(self, name):
        c = self.conns[name]
        try:
            c["client"].shutdown(socket.SHUT_WR)
        except OSError:
            pass
        c["thread"].join(5.0)
        self._drain(c)
        for x in (c["client"], c["raw"]):
            try:
                x.close()
            except OSError:
                pass
        return c
