"""E6 - real gunicorn processes started from the working tree, held in chosen phases by gates.

A Server is `/venv/bin/python -m gunicorn -c conf.py app:app` in its own session with a scratch
directory under /dev/shm.  The test application (written into the scratch dir) reports pid,
generation marker and credentials in response headers and blocks, on request, in a *gate*: it
connects to the driver's unix socket, says where it is, and waits for one byte.  A blocking recv is
cooperative under gevent/eventlet monkey patching and plainly blocking under sync/gthread."""
import errno
import os
import select
import shutil
import signal
import socket
import subprocess
import tempfile
import time

PY = "/venv/bin/python"

APP_SRC = r'''
import os, socket, time, sys

if os.environ.get("VERIF_FAIL_IMPORT"):
    raise RuntimeError("VERIF_FAIL_IMPORT: this application cannot be imported")
if os.environ.get("VERIF_SPAWN_HELPER"):
    # an application that starts a long-lived helper process when it is imported, handing down whatever is inheritable
    import subprocess
    _helper = subprocess.Popen(["sleep", "25"], close_fds=False)
    with open(os.path.join(os.path.dirname(os.path.abspath(__file__)), "helper-%d.pid" % os.getpid()), "w") as _f:
        _f.write(str(_helper.pid))
GEN = os.environ.get("VERIF_GEN", "g?")
IMPORT_IDS = (os.getresuid(), os.getresgid(), tuple(sorted(os.getgroups())))
GATE = os.environ.get("VERIF_GATE")


def gate(name):
    s = socket.socket(socket.AF_UNIX, socket.SOCK_STREAM)
    s.connect(GATE)
    s.sendall(("%s %d\n" % (name, os.getpid())).encode())
    s.recv(1)
    s.close()


def ids():
    return "%s|%s|%s|%s" % (os.getresuid(), os.getresgid(), tuple(sorted(os.getgroups())), IMPORT_IDS)


def app(environ, start_response):
    path = environ["PATH_INFO"]
    hdr = [("X-Pid", str(os.getpid())), ("X-Gen", GEN), ("X-Ids", ids()), ("X-Marker", str(environ.get("VERIF_MARKER", ""))),
           ("X-Extra", os.environ.get("VERIF_EXTRA", "<unset>"))]
    if path.startswith("/gate/"):
        gate("app:" + path[6:])
        body = b"gated-ok"
        start_response("200 OK", hdr + [("Content-Length", str(len(body)))])
        return [body]
    if path.startswith("/partial/"):
        def gen():
            yield b"first-"
            gate("partial:" + path[9:])
            yield b"second"
        start_response("200 OK", hdr + [("Content-Length", "12")])
        return gen()
    if path.startswith("/file/"):
        n = int(path[6:])
        fn = os.path.join(os.path.dirname(os.path.abspath(__file__)), "payload-%d.bin" % n)
        if not os.path.exists(fn):
            with open(fn + ".%d" % os.getpid(), "wb") as f:
                f.write(b"F" * n)
            os.rename(fn + ".%d" % os.getpid(), fn)
        start_response("200 OK", hdr + [("Content-Length", str(n))])
        return environ["wsgi.file_wrapper"](open(fn, "rb"))
    if path.startswith("/pipefile/"):
        # a file object with a descriptor that cannot seek (a pipe): still a valid argument for wsgi.file_wrapper
        n = int(path[10:])
        r, w = os.pipe()
        # closed through a file object: gevent (>= 24) replaces os.close by a version that may defer the close to the next
        # loop iteration, and the blocking read below would then wait for its own write end
        with os.fdopen(w, "wb", 0) as wf:
            wf.write(b"P" * n)
        start_response("200 OK", hdr + [("Content-Length", str(n))])
        return environ["wsgi.file_wrapper"](os.fdopen(r, "rb"))
    if path.startswith("/big/"):
        n = int(path[5:])
        start_response("200 OK", hdr + [("Content-Length", str(n))])
        return [b"B" * n]
    if path.startswith("/slowstream/") or path.startswith("/slowcl/"):
        secs = float(path.split("/")[2])
        def gen2():
            yield b"first-part;"
            time.sleep(secs)
            yield b"second-part;"
        start_response("200 OK", hdr + ([("Content-Length", "23")] if path.startswith("/slowcl/") else []))
        return gen2()
    if path == "/boom":
        raise RuntimeError("application error on request")
    if path.startswith("/sleep/"):
        time.sleep(float(path[7:]))
    if path == "/hang":
        while True:
            time.sleep(3600)
    body = b"ok"
    start_response("200 OK", hdr + [("Content-Length", str(len(body)))])
    return [body]
'''


class GateServer:
    """The driver's end of the gates."""

    def __init__(self, path):
        self.path = path
        self.sock = socket.socket(socket.AF_UNIX, socket.SOCK_STREAM)
        self.sock.bind(path)
        os.chmod(path, 0o777)
        self.sock.listen(64)
        self.sock.setblocking(False)
        self.held = {}       # name -> list of (conn, pid)

    def poll(self, timeout=0.0):
        end = time.time() + timeout
        while True:
            r, _, _ = select.select([self.sock] + [c for v in self.held.values() for c, _p in v if c is not None and False], [], [],
                                    max(0.0, min(0.05, end - time.time())))
            if self.sock in r:
                try:
                    c, _ = self.sock.accept()
                except OSError:
                    c = None
                if c is not None:
                    c.settimeout(2.0)
                    try:
                        line = b""
                        while not line.endswith(b"\n"):
                            d = c.recv(256)
                            if not d:
                                break
                            line += d
                        name, pid = line.decode().split()
                        self.held.setdefault(name, []).append((c, int(pid)))
                    except Exception:
                        c.close()
            if time.time() >= end:
                return

    def wait_entered(self, name, timeout=10.0):
        end = time.time() + timeout
        while time.time() < end:
            if self.held.get(name):
                return self.held[name][0][1]
            self.poll(0.02)
        return None

    def release(self, name):
        for c, _pid in self.held.pop(name, []):
            try:
                c.sendall(b"x")
                c.close()
            except OSError:
                pass

    def close(self):
        for name in list(self.held):
            self.release(name)
        self.sock.close()


def free_port():
    s = socket.socket()
    s.bind(("127.0.0.1", 0))
    p = s.getsockname()[1]
    s.close()
    return p


def proc_children(pid):
    out = []
    for d in os.listdir("/proc"):
        if not d.isdigit():
            continue
        try:
            with open("/proc/%s/stat" % d) as f:
                st = f.read()
            rp = st.rindex(")")
            fields = st[rp + 2:].split()
            if int(fields[1]) == pid:
                out.append((int(d), fields[0]))
        except (OSError, ValueError):
            continue
    return out


def proc_status(pid):
    d = {}
    try:
        with open("/proc/%d/status" % pid) as f:
            for line in f:
                k, _, v = line.partition(":")
                d[k] = v.strip()
    except OSError:
        return None
    return d


def session_members(sid):
    out = []
    for d in os.listdir("/proc"):
        if not d.isdigit():
            continue
        try:
            with open("/proc/%s/stat" % d) as f:
                st = f.read()
            rp = st.rindex(")")
            fields = st[rp + 2:].split()
            if int(fields[3]) == sid:
                out.append((int(d), fields[0]))
        except (OSError, ValueError):
            continue
    return out


class Server:
    def __init__(self, worker_class="sync", workers=1, bind="tcp", graceful_timeout=2, timeout=30, threads=None,
                 keepalive=2, pidfile=True, extra=None, env=None, conf_lines=(), max_requests=0, max_requests_jitter=0,
                 extra_binds=0, extra_unix=False):
        self.dir = tempfile.mkdtemp(prefix="verif-rp-", dir="/dev/shm" if os.path.isdir("/dev/shm") else None)
        os.chmod(self.dir, 0o755)
        self.worker_class = worker_class
        self.bind_kind = bind
        self.sockpath = os.path.join(self.dir, "g.sock")
        self.port = None
        self.pidfile = os.path.join(self.dir, "g.pid") if pidfile else None
        self.gate_path = os.path.join(self.dir, "gate.sock")
        self.gate = GateServer(self.gate_path)
        self.conf = os.path.join(self.dir, "conf.py")
        self.logfile = os.path.join(self.dir, "error.log")
        self.cfg = {"worker_class": worker_class, "workers": workers, "graceful_timeout": graceful_timeout, "timeout": timeout,
                    "keepalive": keepalive, "errorlog": self.logfile, "loglevel": "debug",
                    "max_requests": max_requests, "max_requests_jitter": max_requests_jitter}
        if threads:
            self.cfg["threads"] = threads
        if self.pidfile:
            self.cfg["pidfile"] = self.pidfile
        self.cfg.update(extra or {})
        self.conf_lines = list(conf_lines)
        self.env_extra = dict(env or {})
        self.proc = None
        self.master_pid = None
        self.extra_binds = extra_binds
        self.extra_ports = []
        self.extra_unix_path = os.path.join(self.dir, "g2.sock") if extra_unix else None
        self.preexec_fn = None            # run in the master between fork and exec (e.g. to drop capabilities)
        self.app_in_conf = False          # True: the application is named by wsgi_app in the configuration file, not on the command line
        with open(os.path.join(self.dir, "app.py"), "w") as f:
            f.write(APP_SRC)
        with open(os.path.join(self.dir, "app2.py"), "w") as f:
            # a second application: the first one, with one more response header
            f.write("import app as _base\n\n\ndef app(environ, start_response):\n    def sr(status, headers, exc_info=None):\n"
                    "        return start_response(status, headers + [('X-App2', '1')], exc_info)\n    return _base.app(environ, sr)\n")

    def address(self):
        return self.sockpath if self.bind_kind == "unix" else ("127.0.0.1", self.port)

    def write_conf(self, overrides=None):
        cfg = dict(self.cfg)
        cfg.update(overrides or {})
        cfg["bind"] = ("unix:" + self.sockpath) if self.bind_kind == "unix" else "127.0.0.1:%d" % self.port
        if self.extra_ports:
            cfg["bind"] = [cfg["bind"]] + ["127.0.0.1:%d" % p for p in self.extra_ports]
        if self.extra_unix_path:
            cfg["bind"] = (cfg["bind"] if isinstance(cfg["bind"], list) else [cfg["bind"]]) + ["unix:" + self.extra_unix_path]
        with open(self.conf, "w") as f:
            for k, v in cfg.items():
                f.write("%s = %r\n" % (k, v))
            for line in self.conf_lines:
                f.write(line + "\n")

    def start(self, attempts=3, wait=10.0):
        for _ in range(attempts):
            if self.bind_kind != "unix":
                self.port = free_port()
            self.extra_ports = [free_port() for _ in range(self.extra_binds)]
            self.write_conf()
            env = dict(os.environ)
            for k in ("GUNICORN_CMD_ARGS", "GUNICORN_PID", "GUNICORN_FD", "LISTEN_PID", "LISTEN_FDS", "NOTIFY_SOCKET", "SCRIPT_NAME"):
                env.pop(k, None)
            env.update({"PYTHONPATH": "/repo", "VERIF_GATE": self.gate_path, "VERIF_GEN": "g1", "PYTHONDONTWRITEBYTECODE": "1",
                        "PYTHONUNBUFFERED": "1"})
            env.update(self.env_extra)
            # the console script, not `python -m gunicorn`: on USR2 the master re-executes sys.argv, and with -m that is
            # gunicorn/__main__.py, which puts the package directory (with its own http/ package) first on sys.path
            self.proc = subprocess.Popen([PY, "/venv/bin/gunicorn", "-c", self.conf] + ([] if self.app_in_conf else ["app:app"]), cwd=self.dir, env=env,
                                         stdin=subprocess.DEVNULL, stdout=open(os.path.join(self.dir, "stdout.log"), "ab"),
                                         stderr=subprocess.STDOUT, start_new_session=True, preexec_fn=self.preexec_fn)
            self.master_pid = self.proc.pid
            end = time.time() + wait
            while time.time() < end:
                if self.proc.poll() is not None:
                    break
                if self.can_connect():
                    return True
                time.sleep(0.03)
            # start-up failure: EADDRINUSE etc. is an infrastructure retry with a new port, never a verdict
            self.kill_all()
        return False

    def can_connect(self):
        try:
            c = self.connect(timeout=0.5)
            c.close()
            return True
        except OSError:
            return False

    def connect(self, timeout=5.0, extra=None):
        if extra is not None:
            c = socket.socket()
            c.settimeout(timeout)
            c.connect(("127.0.0.1", self.extra_ports[extra]))
            return c
        if self.bind_kind == "unix":
            c = socket.socket(socket.AF_UNIX, socket.SOCK_STREAM)
        else:
            c = socket.socket()
        c.settimeout(timeout)
        c.connect(self.address())
        return c

    def log_text(self):
        try:
            return open(self.logfile, errors="replace").read()
        except OSError:
            return ""

    def workers(self, master=None):
        return [p for p, st in proc_children(master or self.master_pid) if st != "Z"]

    def signal(self, sig, pid=None):
        os.kill(pid or self.master_pid, sig)

    def wait_exit(self, timeout):
        try:
            return self.proc.wait(timeout)
        except subprocess.TimeoutExpired:
            return None

    def survivors(self, settle=2.0):
        """Members of the server's session still alive (zombies ignored) after a settle window."""
        end = time.time() + settle
        while True:
            m = [(p, st) for p, st in session_members(self.proc.pid) if st != "Z"]
            if not m or time.time() >= end:
                return m
            time.sleep(0.05)

    def kill_all(self):
        if self.proc is None:
            return
        try:
            os.killpg(self.proc.pid, signal.SIGKILL)
        except OSError:
            pass
        for p, _ in session_members(self.proc.pid):
            try:
                os.kill(p, signal.SIGKILL)
            except OSError:
                pass
        try:
            self.proc.wait(5)
        except Exception:
            pass

    def cleanup(self):
        self.kill_all()
        try:
            self.gate.close()
        except Exception:
            pass
        shutil.rmtree(self.dir, ignore_errors=True)


def read_response(c, timeout=10.0):
    """Reads one Content-Length framed response (or until close).  Returns (head, body, complete, closed)."""
    c.settimeout(timeout)
    buf = b""
    closed = False
    try:
        while b"\r\n\r\n" not in buf:
            d = c.recv(65536)
            if not d:
                closed = True
                break
            buf += d
    except (socket.timeout, OSError) as e:
        return buf, b"", False, isinstance(e, OSError) and not isinstance(e, socket.timeout)
    if b"\r\n\r\n" not in buf:
        return buf, b"", False, closed
    head, _, body = buf.partition(b"\r\n\r\n")
    cl = None
    for line in head.split(b"\r\n")[1:]:
        if line.lower().startswith(b"content-length:"):
            cl = int(line.split(b":", 1)[1])
    try:
        while cl is not None and len(body) < cl and not closed:
            d = c.recv(65536)
            if not d:
                closed = True
                break
            body += d
    except (socket.timeout, OSError):
        pass
    return head, body, (cl is not None and len(body) >= cl), closed


def header(head, name):
    for line in head.split(b"\r\n")[1:]:
        k, _, v = line.partition(b":")
        if k.strip().lower() == name.lower().encode():
            return v.strip().decode()
    return None
