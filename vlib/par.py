"""Deterministic parallel map over shards (fork pool). Results come back in input order,
so verdicts and samples never depend on timing."""
import multiprocessing as mp
import os

_FUNC = None


def _call(args):
    return _FUNC(args)


def default_jobs():
    try:
        n = int(os.environ.get("VERIF_JOBS", "0"))
    except ValueError:
        n = 0
    if n > 0:
        return n
    return min(16, os.cpu_count() or 1)


def pmap(func, items, jobs=None, chunksize=1):
    """func must be a module-level function (it is inherited by fork, not pickled)."""
    global _FUNC
    items = list(items)
    jobs = jobs or default_jobs()
    if jobs <= 1 or len(items) <= 1:
        return [func(it) for it in items]
    _FUNC = func
    ctx = mp.get_context("fork")
    with ctx.Pool(min(jobs, len(items))) as pool:
        return pool.map(_call, items, chunksize)


def shard(items, n):
    """Split a list into n interleaved shards (keeps each shard representative)."""
    items = list(items)
    return [items[i::n] for i in range(n) if items[i::n]]
