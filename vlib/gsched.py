"""E3 - controlled scheduler for code that really has several threads (gthread).

Every controlled flow (the worker's main loop, each pool thread) is a greenlet; exactly one runs.
At every *scheduling point* (an operation on shared state made visible by substitution: lock,
selector, socket, executor/future, instrumented containers) the running flow yields to the
scheduler, which asks the chooser which enabled flow goes on.  Choosing another flow although the
current one could continue is a *preemption*.  When no flow is enabled the system is *quiescent*:
the environment moves (next event / virtual clock).  Same choices => same execution.

(Greenlets, not OS threads: switching is explicit and cheap; greenlet switches are done from plain
code, never from a trace callback.)"""
import greenlet


class Deadlock(Exception):
    pass


class Livelock(Exception):
    pass


class Task:
    def __init__(self, name, fn):
        self.name = name
        self.fn = fn
        self.g = None
        self.cond = None          # None = runnable; else a callable that must become true
        self.done = False
        self.exc = None
        self.label = "start"


class Sched:
    def __init__(self, choices=(), max_points=4000):
        self.tasks = []
        self.cur = None
        self.choices = list(choices)   # replayed prefix
        self.taken = []                # every choice made: (n_enabled, index, preemption?)
        self.pos = 0
        self.points = 0
        self.max_points = max_points
        self.now = 0.0
        self.trace = []
        self.env = None               # callable(sched) -> bool (moved something) ; called at quiescence
        self.segment_marks = []       # len(taken) at each quiescence
        self.main_greenlet = None
        self.preemptions = 0
        self.stop = False

    def spawn(self, name, fn):
        t = Task(name, fn)
        self.tasks.append(t)
        return t

    # ---- called from inside tasks
    def point(self, label=""):
        """The running task reaches a scheduling point."""
        t = self.cur
        if t is None:
            return
        t.label = label
        self.main_greenlet.switch()

    def block(self, cond, label=""):
        """The running task cannot go on until cond() holds."""
        t = self.cur
        if t is None:
            if not cond():
                raise Deadlock("blocking call outside a task: %s" % label)
            return
        if cond():
            # still a scheduling point
            t.label = label
            self.main_greenlet.switch()
            return
        t.cond = cond
        t.label = label
        self.main_greenlet.switch()

    # ---- scheduler loop
    def enabled(self):
        out = []
        for t in self.tasks:
            if t.done:
                continue
            if t.cond is None:
                out.append(t)
            else:
                try:
                    ok = t.cond()
                except Exception:
                    ok = True
                if ok:
                    out.append(t)
        return out

    def choose(self, n, default=0):
        if self.pos < len(self.choices):
            c = self.choices[self.pos]
            if c >= n:
                raise AssertionError("replay divergence: choice %d of %d at position %d" % (c, n, self.pos))
        else:
            c = default
        self.pos += 1
        return c

    def run(self):
        self.main_greenlet = greenlet.getcurrent()
        for t in self.tasks:
            t.g = greenlet.greenlet(self._wrap(t))
        last = None
        while not self.stop:
            en = self.enabled()
            if not en:
                if all(t.done for t in self.tasks):
                    break
                # quiescent
                self.segment_marks.append(len(self.taken))
                self.cur = None
                moved = self.env(self) if self.env else False
                if not moved:
                    break
                last = None
                continue
            # canonical order: the task that ran last first (if enabled), then by creation order
            order = [t for t in en if t is last] + [t for t in en if t is not last]
            if len(order) > 1:
                idx = self.choose(len(order))
                pre = (last in en) and idx != 0
                self.taken.append((len(order), idx, pre, last in en))
                if pre:
                    self.preemptions += 1
            else:
                idx = 0
            t = order[idx]
            self.points += 1
            if self.points > self.max_points:
                raise Livelock("more than %d scheduling points without an end" % self.max_points)
            t.cond = None
            self.cur = t
            t.g.switch()
            self.cur = None
            last = t
        return self

    def _wrap(self, t):
        def body():
            try:
                t.fn()
            except greenlet.GreenletExit:
                raise
            except BaseException as e:
                t.exc = e
            finally:
                t.done = True
        return body

    def kill_all(self):
        for t in self.tasks:
            if t.g is not None and not t.g.dead and t.g:
                try:
                    t.g.throw(greenlet.GreenletExit)
                except Exception:
                    pass


# -------------------------------------------------------------------- substitutes -----------------

class SimRLock:
    def __init__(self, sched):
        self.s = sched
        self.owner = None
        self.count = 0

    def acquire(self, blocking=True, timeout=-1):
        me = self.s.cur
        if self.owner is me and me is not None:
            self.count += 1
            return True
        self.s.block(lambda: self.owner is None, "lock.acquire")
        self.owner = me
        self.count = 1
        return True

    def release(self):
        self.count -= 1
        if self.count == 0:
            self.owner = None
        self.s.point("lock.release")

    def __enter__(self):
        self.acquire()
        return self

    def __exit__(self, *a):
        self.release()
        return False


class SimFuture:
    def __init__(self, sched):
        self.s = sched
        self._done = False
        self._cancelled = False
        self._result = None
        self._exc = None
        self.callbacks = []
        self.running_cb = False

    def done(self):
        return self._done

    def cancelled(self):
        return self._cancelled

    def result(self, timeout=None):
        if self._exc is not None:
            raise self._exc
        return self._result

    def add_done_callback(self, cb):
        self.s.point("future.add_done_callback")
        if self._done:
            cb(self)
        else:
            self.callbacks.append(cb)

    def _finish(self, result=None, exc=None):
        self._result, self._exc = result, exc
        self.s.point("future.set_result")
        self._done = True
        for cb in list(self.callbacks):
            self.s.point("future.callback")
            cb(self)


class SimExecutor:
    """Mirrors ThreadPoolExecutor: `threads` workers, FIFO queue, shutdown(False) stops intake only."""

    def __init__(self, sched, threads):
        self.s = sched
        self.queue = []
        self.shut = False
        self.busy = 0
        self.threads = threads
        for i in range(threads):
            sched.spawn("pool%d" % i, self._loop)

    def submit(self, fn, *args):
        if self.shut:
            raise RuntimeError("cannot schedule new futures after shutdown")
        f = SimFuture(self.s)
        self.queue.append((f, fn, args))
        self.s.point("executor.submit")
        return f

    def shutdown(self, wait=True, cancel_futures=False, **kw):
        self.shut = True
        self.s.point("executor.shutdown")
        if cancel_futures:
            # like ThreadPoolExecutor: pending work items are cancelled, their done-callbacks run in the caller
            pending, self.queue = self.queue, []
            for f, _fn, _args in pending:
                f._cancelled = True
                f._finish()

    def _loop(self):
        while True:
            self.s.block(lambda: bool(self.queue) or self.shut, "pool.idle")
            if not self.queue:
                if self.shut:
                    return
                continue            # another pool thread took the job first
            f, fn, args = self.queue.pop(0)
            self.busy += 1
            try:
                r = fn(*args)
                self.busy -= 1
                f._finish(result=r)
            except BaseException as e:
                if isinstance(e, greenlet.GreenletExit):
                    raise
                self.busy -= 1
                f._finish(exc=e)


class PointDeque:
    """deque substitute with a scheduling point in front of every operation."""

    def __init__(self, sched, name):
        self.s, self.name = sched, name
        self.items = []

    def append(self, x):
        self.s.point(self.name + ".append")
        self.items.append(x)

    def appendleft(self, x):
        self.s.point(self.name + ".appendleft")
        self.items.insert(0, x)

    def popleft(self):
        self.s.point(self.name + ".popleft")
        if not self.items:
            raise IndexError("pop from an empty deque")
        return self.items.pop(0)

    def remove(self, x):
        self.s.point(self.name + ".remove")
        self.items.remove(x)

    def __len__(self):
        self.s.point(self.name + ".len")
        return len(self.items)

    def __iter__(self):
        return iter(list(self.items))

    def __contains__(self, x):
        return x in self.items
