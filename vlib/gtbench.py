"""The real gunicorn ThreadWorker under the controlled scheduler (vlib.gsched): simulated selector,
listener, sockets, executor/futures, lock and clock; gated WSGI application; environment events at
quiescence.  One World = one execution, rebuilt from scratch for every explored history/schedule."""
import errno
import os
import selectors

from . import gsched, gparse

EPS = 0.001


class Key:
    def __init__(self, fileobj, data):
        self.fileobj, self.data = fileobj, data


class SimSelector:
    def __init__(self, world):
        self.w = world
        self.map = {}
        self.closed = False

    def register(self, fileobj, events, data=None):
        self.w.s.point("poller.register")
        if fileobj in self.map:
            self.w.anomaly("double-register", "socket %s registered twice" % getattr(fileobj, "name", fileobj))
            raise KeyError("already registered")
        if getattr(fileobj, "closed", 0):
            self.w.anomaly("register-closed-socket", "closed socket %s registered" % fileobj.name)
            raise ValueError("closed file")
        self.map[fileobj] = Key(fileobj, data)
        if hasattr(fileobj, "client"):
            # a connection handed (back) to the poller is idle from this moment: the keep-alive period counts from here
            fileobj.last_keep_deadline = self.w.s.now + self.w.keepalive_s

    def unregister(self, fileobj):
        self.w.s.point("poller.unregister")
        if fileobj not in self.map:
            raise KeyError("not registered")
        del self.map[fileobj]

    def select(self, timeout=None):
        s = self.w.s
        deadline = None if timeout is None else s.now + timeout
        self.w.main_deadline = deadline

        def ready():
            return any(f.readable() for f in self.map) or (deadline is not None and s.now >= deadline - 1e-9)
        s.block(ready, "poller.select")
        self.w.main_deadline = None
        self.w.spin_run = 0
        self.w.polls += 1
        return [(k, selectors.EVENT_READ) for f, k in list(self.map.items()) if f.readable()]

    def close(self):
        self.w.s.point("poller.close")
        self.closed = True


class SimListener:
    name = "listener"

    def __init__(self, world):
        self.w = world
        self.pending = []
        self.closed = 0
        self.stolen = 0          # connections a sibling worker will accept first: readable, then EAGAIN
        self.aborted = 0         # connections reset by the peer while still in the listen queue: readable, then ECONNABORTED

    def readable(self):
        return (bool(self.pending) or self.stolen > 0 or self.aborted > 0) and not self.closed

    def accept(self):
        self.w.s.point("listener.accept")
        if not self.pending:
            if self.aborted:
                self.aborted -= 1
                raise ConnectionAbortedError(errno.ECONNABORTED, "Software caused connection abort")
            if self.stolen:
                self.stolen -= 1
            raise BlockingIOError(errno.EAGAIN, "nothing to accept")
        c = self.pending.pop(0)
        c.accepted = True
        c.accept_poll = self.w.polls
        self.w.accepted.append(c)
        return c, ("10.0.0.%d" % (c.client + 1), 4000 + c.client)

    def setblocking(self, v):
        pass

    def getsockname(self):
        return ("127.0.0.1", 8000)

    def fileno(self):
        return 3

    def close(self):
        self.closed += 1


class SimSocket:
    """Server-side end of one client connection."""

    def __init__(self, world, client, serial):
        self.w = world
        self.client = client
        self.name = "c%d#%d" % (client, serial)
        self.rbuf = b""
        self.peer_closed = False
        self.wbuf = b""
        self.closed = 0
        self.blocking = True
        self.accepted = False
        self.in_job = None
        self.closed_at = None
        self.closed_by = None
        self.total_in = 0

    def readable(self):
        return not self.closed and (bool(self.rbuf) or self.peer_closed)

    def _dead(self, what):
        if self.closed:
            self.w.anomaly("use-after-close", "%s on closed socket %s" % (what, self.name))
            raise OSError(errno.EBADF, "Bad file descriptor")

    def recv(self, n, *a):
        s = self.w.s
        s.point("sock.recv")
        self._dead("recv")
        if not self.rbuf and not self.peer_closed:
            if not self.blocking:
                raise BlockingIOError(errno.EAGAIN, "would block")
            s.block(lambda: bool(self.rbuf) or self.peer_closed or self.closed, "sock.recv.wait")
            self._dead("recv")
        d, self.rbuf = self.rbuf[:n], self.rbuf[n:]
        return d

    def sendall(self, d, *a):
        self.w.s.point("sock.sendall")
        self._dead("sendall")
        self.wbuf += d

    def send(self, d, *a):
        self.sendall(d)
        return len(d)

    def setblocking(self, v):
        self.blocking = bool(v)

    def settimeout(self, t):
        self.blocking = t is None or t > 0

    def gettimeout(self):
        return None if self.blocking else 0.0

    def fileno(self):
        return 10 + self.w.accepted.index(self) if self in self.w.accepted else 99

    def shutdown(self, how):
        self.w.s.point("sock.shutdown")

    def close(self):
        self.w.s.point("sock.close")
        me = self.w.s.cur
        if self.in_job is not None and me is not self.in_job:
            self.w.anomaly("closed-while-request-handled", "socket %s closed by %s while %s handles a request on it" % (
                self.name, me.name if me else "?", self.in_job.name))
        self.closed += 1
        if self.closed == 1:
            answered = self.wbuf.count(b"HTTP/1.1 200 OK")
            if self.total_in > answered and not self.peer_closed and self.w.worker.alive:
                piped = self.w.clients.get(self.client, {}).get("pipelined") and not self.rbuf
                self.w.anomaly("closed-with-pipelined-request-pending" if piped else ("closed-with-request-in-progress" + ("-at-capacity" if self.w.spins else "")), "the worker closed connection %s although a request (%d sent, %d answered) is in progress and the client is still there" % (
                    self.name, self.total_in, answered))
            self.closed_at = self.w.s.now
            self.closed_by = me.name if me else None
            # "by the reaper" = closed by the very flow that is inside murder_keepalived(), not by a handler that happens to run meanwhile
            self.w.closes.append((self.name, self.w.s.now, self.closed_by, self.w.in_murder is not False and self.w.in_murder is self.w.s.cur))

    def getpeername(self):
        return ("10.0.0.%d" % (self.client + 1), 4000)


class SimFutures:
    FIRST_COMPLETED = "FIRST_COMPLETED"
    ALL_COMPLETED = "ALL_COMPLETED"

    def __init__(self, world):
        self.w = world

    def wait(self, fs, timeout=None, return_when="ALL_COMPLETED"):
        import collections
        R = collections.namedtuple("DoneAndNotDoneFutures", "done not_done")
        s = self.w.s
        fs = list(fs)
        deadline = None if timeout is None else s.now + timeout
        self.w.main_deadline = deadline if fs else None

        if not fs and timeout:
            # nothing to wait for: the real call returns at once.  The main loop reaches this when it is at capacity
            # and nothing is in flight: it then spins (busy loop).  After three spins in a row the spinning is modelled
            # as lasting until the clock moves, so that histories go on (keep-alive reaping stays observable).
            self.w.spin_run += 1
            if self.w.spin_run >= 3:
                self.w.spins += 1
                dl = s.now + timeout
                self.w.main_deadline = dl
                s.block(lambda: s.now >= dl - 1e-9, "busy-loop")
                self.w.main_deadline = None
                self.w.spin_run = 0
            return R(set(), set())
        self.w.spin_run = 0

        def ready():
            if not fs:
                return True
            if return_when == "FIRST_COMPLETED":
                ok = any(f.done() for f in fs)
            else:
                ok = all(f.done() for f in fs)
            return ok or (deadline is not None and s.now >= deadline - 1e-9)
        s.block(ready, "futures.wait")
        self.w.main_deadline = None
        return R(set(f for f in fs if f.done()), set(f for f in fs if not f.done()))


class SimTime:
    def __init__(self, world):
        self.w = world

    def time(self):
        return self.w.s.now

    def monotonic(self):
        return self.w.s.now

    def sleep(self, d):
        s = self.w.s
        dl = s.now + d
        s.block(lambda: s.now >= dl - 1e-9, "time.sleep")


class QuietLog:
    def __getattr__(self, name):
        return lambda *a, **k: None


class World:
    def __init__(self, threads=1, worker_connections=2, keepalive=2, max_requests=0, jitter_answer=0, choices=(), max_points=3000,
                 menu_mode="all", nclients=2):
        import gunicorn.workers.gthread as G
        self.G = G
        self.s = gsched.Sched(choices, max_points=max_points)
        self.anomalies = []
        self.accepted = []
        self.closes = []
        self.main_deadline = None
        self.polls = 0
        self.in_murder = False
        self.limit_poll = None
        self.booted_flag = True
        self.menu_mode = menu_mode
        self.nclients = nclients
        self.spin_run = 0
        self.spins = 0
        self.steals_left = 2
        self.murder_passes = []
        self.gates = []            # tasks parked in the application gate: (task, released flag holder)
        self.app_calls = []
        self.responses = {}
        self.keepalive_s = keepalive
        kw = {"threads": threads, "worker_connections": worker_connections, "keepalive": keepalive}
        if max_requests:
            kw["max_requests"] = max_requests
        self.cfg = gparse.make_cfg(**kw)
        self.listener = SimListener(self)
        world = self

        class W(G.ThreadWorker):
            def handle(self_, conn):
                conn.sock.in_job = world.s.cur
                try:
                    return G.ThreadWorker.handle(self_, conn)
                finally:
                    conn.sock.in_job = None

            # `alive` observed: the main-loop round in which the worker was told it is done
            @property
            def alive(self_):
                return self_.__dict__.get("_alive_v", True)

            @alive.setter
            def alive(self_, v):
                if not v and self_.__dict__.get("_alive_v", True) and world.limit_poll is None and world.booted_flag:
                    world.limit_poll = world.polls
                self_.__dict__["_alive_v"] = v

            def murder_keepalived(self_):
                world.murder_passes.append(world.s.now)
                world.in_murder = world.s.cur
                try:
                    return G.ThreadWorker.murder_keepalived(self_)
                finally:
                    world.in_murder = False

            def notify(self_):
                world.notifies.append(world.s.now)

        self.notifies = []
        self.saved = (G.futures, G.time)
        G.futures = SimFutures(self)
        G.time = SimTime(self)
        w = W(1, os.getppid(), [self.listener], None, 15, self.cfg, QuietLog())
        try:
            w.tmp.close()
        except Exception:
            pass
        if max_requests:
            w.max_requests = max_requests + jitter_answer
        w.wsgi = self.app
        w.poller = SimSelector(self)
        w._lock = gsched.SimRLock(self.s)
        w._keep = gsched.PointDeque(self.s, "_keep")
        w.futures = gsched.PointDeque(self.s, "futures")
        w.tpool = gsched.SimExecutor(self.s, threads)
        self.worker = w
        self.run_returned = False
        self.run_exc = None
        self.clients = {}           # k -> dict(sock, sent, state)
        self.serial = 0

        def main():
            try:
                w.run()
                self.run_returned = True
            except BaseException as e:
                if isinstance(e, gsched.greenlet.GreenletExit):
                    raise
                self.run_exc = e
        self.s.tasks.insert(0, gsched.Task("main", main))

    def restore(self):
        self.G.futures, self.G.time = self.saved
        self.s.kill_all()

    def anomaly(self, kind, text):
        self.anomalies.append((kind, text))

    # ---- application
    def app(self, environ, start_response):
        path = environ["PATH_INFO"]
        self.app_calls.append((path, self.s.now, self.s.cur.name if self.s.cur else None))
        if path.startswith("/gate"):
            holder = {"released": False, "task": self.s.cur, "path": path}
            self.gates.append(holder)
            self.s.block(lambda: holder["released"], "app.gate")
        body = b"ok:" + path.encode()
        start_response("200 OK", [("Content-Length", str(len(body)))])
        return [body]

    # ---- client side / environment
    def open_server_socks(self):
        return [c for c in self.accepted if not c.closed]

    def ev_connect(self, k):
        self.serial += 1
        c = SimSocket(self, k, self.serial)
        self.listener.pending.append(c)
        self.clients[k] = {"sock": c, "half": False, "requests": 0}

    def ev_send(self, k, kind):
        c = self.clients[k]["sock"]
        if kind == "pipe2":
            # two keep-alive requests in one segment (HTTP pipelining)
            for i in range(2):
                path = "/plain/%d.%d" % (k, self.clients[k]["requests"])
                c.rbuf += ("GET %s HTTP/1.1\r\nHost: h\r\n\r\n" % path).encode()
                self.clients[k]["requests"] += 1
                c.total_in += 1
            self.clients[k]["pipelined"] = True
            return
        path = {"ka": "/plain", "close": "/plain", "gate": "/gate", "half": "/plain"}[kind]
        path += "/%d.%d" % (k, self.clients[k]["requests"])
        req = "GET %s HTTP/1.1\r\nHost: h\r\n%s\r\n" % (path, "Connection: close\r\n" if kind == "close" else "")
        req = req.encode()
        self.clients[k]["requests"] += 1
        self.clients[k]["last_path"] = path
        if kind == "half":
            c.rbuf += req[:10]
            self.clients[k]["half"] = req[10:]
        else:
            c.rbuf += req
        c.total_in += 1

    def ev_rest(self, k):
        c = self.clients[k]["sock"]
        c.rbuf += self.clients[k]["half"]
        self.clients[k]["half"] = False

    def ev_close(self, k):
        if k not in self.clients:
            return
        self.clients[k]["sock"].peer_closed = True
        self.clients[k]["closed"] = True

    def ev_release(self):
        for h in self.gates:
            h["released"] = True
        self.gates = []

    def ev_tick(self):
        # advance the virtual clock to the earliest deadline of a blocked flow (or by one second)
        dls = []
        if self.main_deadline is not None:
            dls.append(self.main_deadline)
        self.s.now = (min(dls) if dls else self.s.now + 1.0) + EPS if not dls else min(dls) + EPS

    def ev_term(self):
        self.worker.alive = False

    def answered(self, k):
        """number of complete responses client k received on its current connection"""
        c = self.clients[k]["sock"]
        return c.wbuf.count(b"HTTP/1.1 200 OK")

    def apply(self, ev):
        kind = ev[0]
        if kind == "connect":
            self.ev_connect(ev[1])
        elif kind == "send":
            self.ev_send(ev[1], ev[2])
        elif kind == "rest":
            self.ev_rest(ev[1])
        elif kind == "close":
            self.ev_close(ev[1])
        elif kind == "release":
            self.ev_release()
        elif kind == "tick":
            self.ev_tick()
        elif kind == "term":
            self.ev_term()
        elif kind == "steal":
            # the listener is reported readable, but another worker process accepts the connection first
            self.listener.stolen += 1
            self.steals_left -= 1
        elif kind == "abort":
            # a client connected and reset before the worker got to accept(): accept() fails with ECONNABORTED
            self.listener.aborted += 1
            self.steals_left -= 1
        else:
            raise AssertionError(ev)

    def menu(self, nclients=None):
        """environment events possible in the current quiescent state (ticks excluded)"""
        evs = []
        for k in range(nclients or self.nclients):
            st = self.clients.get(k)
            if st is None:
                evs.append(("connect", k))
                continue
            c = st["sock"]
            if st.get("closed"):
                continue
            if st["half"]:
                evs.append(("rest", k))
            elif not c.closed:
                waiting = st["requests"] > self.answered(k)
                if not waiting:
                    for kind in ("ka", "close", "gate", "half", "pipe2"):
                        evs.append(("send", k, kind))
            evs.append(("close", k))
        if self.gates:
            evs.append(("release",))
        if self.menu_mode == "nopipe":
            evs = [e for e in evs if not (e[0] == "send" and e[2] == "pipe2")]
        if self.menu_mode == "keepalive":
            evs = [e for e in evs if (e[0] == "send" and e[2] == "ka") or e[0] == "connect"]
        elif self.steals_left > 0:
            evs.append(("steal",))
            evs.append(("abort",))
        return evs

    # ---- observation
    def canon(self):
        w = self.worker
        conns = []
        reg = w.poller.map
        keep = list(w._keep.items)
        queued = [args[0] for (_f, _fn, args) in w.tpool.queue]
        for c in self.accepted:
            tconn = None
            for key in reg.values():
                d = getattr(key.data, "args", None)
                if d and getattr(d[0], "sock", None) is c:
                    tconn = d[0]
            kp = [t for t in keep if t.sock is c]
            dl = None
            if kp and kp[0].timeout is not None:
                dl = round(kp[0].timeout - self.s.now, 1)
            conns.append((c.client, bool(c.closed), c in reg, bool(kp), c.in_job is not None or any(q.sock is c for q in queued),
                          bool(c.rbuf), c.peer_closed, dl, c.wbuf.count(b"HTTP/1.1 200")))
        tasks = tuple((t.name, t.label if not t.done else "done") for t in self.s.tasks)
        md = None if self.main_deadline is None else round(self.main_deadline - self.s.now, 1)
        cl = tuple(sorted((k, bool(st.get("closed")), bool(st["half"]), st["requests"]) for k, st in self.clients.items()))
        return (w.nr_conns, w.alive, w.nr, tuple(conns), tasks, len(w.futures.items), len(self.listener.pending), len(self.gates), md, cl)
