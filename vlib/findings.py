"""known_findings.json: genuine defects recorded rather than repaired (suppress exactly their
fingerprint) and repaired ones (suppress nothing).  Never written at run time."""
import json
import os

PATH = os.path.join(os.path.dirname(os.path.dirname(os.path.abspath(__file__))), "known_findings.json")


def load():
    if not os.path.exists(PATH):
        return {"findings": [], "fixed": []}
    with open(PATH) as f:
        return json.load(f)


def known_for(prop):
    return {e["fingerprint"]: e for e in load().get("findings", []) if e["property"] == prop}
